#!/bin/bash
# Re-runs every kept NEUTRAL change (a refactoring that keeps the property
# true) under /verif/neutral against the current checks, which must stay
# silent (quick tier by default):   tools/neutralall.sh [quick|thorough] [name ...]
# For each change: fresh scratch worktree of /repo HEAD, apply patch.diff, run
# the property's check with VERIF_REPO pointing at it, remove the worktree.
# Prints one line per change: <name> SILENT|ALARM|PATCH-DOES-NOT-APPLY <mechanisms>
HERE="$(cd "$(dirname "${BASH_SOURCE[0]}")/.." && pwd)"
TIER="${1:-quick}"; shift
NAMES="$@"
[ -z "$NAMES" ] && NAMES=$(ls "$HERE/neutral")
mkdir -p /tmp/neutralall
for n in $NAMES; do
	d="$HERE/neutral/$n"
	[ -f "$d/patch.diff" ] || continue
	pid=$(/venv/bin/python -c "import json;print(json.load(open('$d/meta.json'))['property'])")
	wt=/tmp/neutralall/$n
	git -C /repo worktree remove --force "$wt" >/dev/null 2>&1
	git -C /repo worktree add -q --detach "$wt" HEAD || { echo "$n WORKTREE-FAILED"; continue; }
	if ! git -C "$wt" apply "$d/patch.diff" 2>/dev/null; then
		echo "$n PATCH-DOES-NOT-APPLY"
	else
		out=$(cd "$HERE" && VERIF_REPO="$wt" ./check "$pid" "$TIER" 2>&1)
		rc=$?
		mech=$(echo "$out" | grep -o "mechanism=[^ ]*" | sort -u | tr '\n' ' ')
		if [ $rc -eq 0 ]; then echo "$n SILENT ($pid $TIER exit 0)"
		else echo "$n ALARM by $pid $TIER (exit $rc): $mech"; fi
	fi
	git -C /repo worktree remove --force "$wt" >/dev/null 2>&1
done
git -C /repo worktree prune
