"""C02  Shuffles preserve composition (mono-/di-nucleotide), flanks, determinism.

Monitors
  * API boundary of ersatz.shuffle / ersatz.dinucleotide_shuffle (compiled
    kernel): composition counters recomputed by the harness from the decoded
    output, flank equality, one-hot validity, immutability of the input,
    repeat-call determinism for integer seeds (also after unrelated draws from
    numpy's and numba's generators).
  * the dinucleotide walk itself: ersatz._fast_shuffle is replaced (from the
    harness, nothing in the repository is edited) by a wrapper that runs its
    pure-Python body (.py_func) with numpy.random.permutation replaced by an
    *enumerating* permutation source, so every outcome of the internal
    randomness is executed; after every walk the wrapper inspects the kernel's
    own bookkeeping arrays: all transitions consumed (counters ==
    next_idxs_counts), every output column one-hot.
  * the compiled kernel additionally under NUMBA_BOUNDSCHECK=1.
"""

import collections
import os
import itertools

import numpy
import torch

from .. import gen
from .c01 import alpha, idx_all, to_ohe, from_ohe, strs

ID = "C02"
LEVEL = "exploration"
RULE = ("one case = one (sequence, region, n, seed) call of a shuffle, or one "
	"(sequence, complete assignment of the walk's internal permutations) "
	"execution of the dinucleotide walk.  Small scope enumerated completely: "
	"every sequence up to the tier's length over alphabets 2-4, every "
	"region; the walk with every product of permutations.  Non-trivial = the "
	"region contains at least 3 positions and 2 distinct characters (a "
	"shuffle can change something); distinct = distinct tuples.")
ASSUMPTIONS = [
	"dinucleotide_shuffle may raise (region too short, all shuffles "
	"identical); only returned results are judged, and a run in which it "
	"never returned is inconclusive",
	"regions are given as explicit 0 <= start < end <= L or with a negative "
	"end; the default (start=0, end=-1) call is judged on whole-sequence "
	"composition and a negative end -k on the region [start, L+1-k), which "
	"both conventions in use (L+1-k in shuffle, slicing L-k in "
	"dinucleotide_shuffle) imply",
]
REQUIRED = {"numpy_int_seed_calls": 20, "negative_end_calls": 20,
	"layout_differential_calls": 50, "long_region_calls": 8,
	"walks_enumerated": 50, "dinuc_returned": 50,
	"shuffle_returned": 50}
TIMEOUT = {"quick": 900, "thorough": 5400}


def pairs(row):
	return collections.Counter(zip(row[:-1].tolist(), row[1:].tolist()))


def mono(row):
	return collections.Counter(row.tolist())


def check_shuffle_output(kind, idx, out, s, e, A):
	"""idx (L,) original indices; out tensor (n, A, L) -> None or detail."""
	got, why = from_ohe(out, A)
	if got is None:
		return {"what": "output is not a one-hot encoding: " + why}
	L = len(idx)
	if got.shape[1] != L:
		return {"what": "length changed", "got": got.shape[1]}
	for j in range(got.shape[0]):
		g = got[j]
		if (g[:s] != idx[:s]).any() or (g[e:] != idx[e:]).any():
			return {"what": "position outside the region altered",
				"shuffle": j, "got": strs(g[None], A)[0]}
		if kind == "mono":
			if mono(g[s:e]) != mono(idx[s:e]):
				return {"what": "character counts in the region changed",
					"shuffle": j, "got": strs(g[None], A)[0]}
		else:
			if pairs(g[s:e]) != pairs(idx[s:e]):
				return {"what": "ordered-pair counts in the region changed",
					"shuffle": j, "got": strs(g[None], A)[0]}
			if e - s >= 1 and (g[s] != idx[s] or g[e - 1] != idx[e - 1]):
				return {"what": "first/last character of the region changed",
					"shuffle": j, "got": strs(g[None], A)[0]}
	return None


def nontrivial_region(idx, s, e):
	return e - s >= 3 and len(set(idx[s:e].tolist())) >= 2


# ---- API-level cases -------------------------------------------------------

def case_api(cls, params, rec):
	"""params: fn, A, seqs (list of str or 'all:L'), start, end, n, seed,
	default (bool: call with the default region)."""
	from tangermeme import ersatz
	from .c01 import seqs_of
	A = params["A"]
	idx = seqs_of(params)
	B, L = idx.shape
	X = to_ohe(idx, A, {"int8": torch.int8, "float32": torch.float32,
		"float64": torch.float64}[params.get("xdtype", "int8")])
	params, X, xbase = gen.apply_layout(params, rec, X)
	fn = params["fn"]
	f = getattr(ersatz, fn)
	seed_arg = params["seed"]
	if seed_arg is not None and params.get("seedkind") == "npint":
		# numpy integers are integers too (e.g. seeds taken from an array)
		seed_arg = numpy.int64(seed_arg)
		rec.count("numpy_int_seed_calls")
	kw = {"n": params["n"], "random_state": seed_arg}
	if params.get("default"):
		s, e = 0, L
	else:
		s, e = params["start"], params["end"]
		kw.update(start=s, end=e)
		if e < 0:
			# negative end -k: shuffle documents L + 1 - k, the slicing in
			# dinucleotide_shuffle gives L - k.  Judged on what both imply:
			# positions >= L + 1 - k untouched and the composition of
			# [s, L + 1 - k) preserved (under the second reading position
			# L - k is a preserved flank / the preserved last character)
			e = L + 1 + e
			rec.count("negative_end_calls")
	mon = gen.Immutable(X=X, Xbase=xbase)
	st, val = gen.call(f, X, **kw)
	if mon.changed():
		rec.violation(cls, params, {"what": "input tensor modified"},
			mech="C02/input-mutated")
		return
	if st == "raise":
		if fn == "shuffle" and params.get("seedkind") == "npint":
			# only Python ints are documented seeds: refusing a numpy integer
			# is in order, treating it as another seed is not
			rec.refusal(cls, params, "numpy integer seed refused: " + repr(
				val)[:120])
			return
		if fn == "shuffle":
			rec.violation(cls, params, {"what": "shuffle raised on a valid "
				"region", "error": repr(val)[:300]}, mech="C02/shuffle-raised")
		else:
			rec.refusal(cls, params, repr(val)[:160])
		return
	rec.count("dinuc_returned" if fn == "dinucleotide_shuffle" else
		"shuffle_returned", B)
	if tuple(val.shape) != (B, params["n"], A, L):
		rec.violation(cls, params, {"what": "shape %s expected %s" % (
			tuple(val.shape), (B, params["n"], A, L))}, mech="C02/shape")
		return
	kind = "mono" if fn == "shuffle" else "di"
	for b in range(B):
		d = check_shuffle_output(kind, idx[b], val[b], s, e, A)
		if d is not None:
			d.update(sequence=strs(idx[b:b + 1], A)[0], start=s, end=e,
				end_argument=params.get("end"), example=b)
			rec.violation(cls, params, d, mech="C02/" + (
				"composition" if "counts" in d["what"] or "first" in d["what"]
				else "flank" if "outside" in d["what"] else "not-one-hot"))
			return
	if params["seed"] is not None and xbase is not None:
		# the result is a function of the VALUES of the input: the same
		# values in an ordinary contiguous tensor give the same shuffles
		stc, valc = gen.call(f, X.contiguous().clone(), **kw)
		rec.count("layout_differential_calls")
		if stc != "ok" or not torch.equal(val, valc):
			rec.violation(cls, params, {"what": "same values, same integer "
				"seed, other memory layout (%s): different result" %
				params["layout"], "contiguous_call": stc}, mech=
				"C02/layout-dependent")
			return
	if params["seed"] is not None and params.get("determinism", True):
		# unrelated draws from both generators in between
		numpy.random.rand(3)
		_numba_draw()
		# ... and an unrelated shuffle of other sequences of the same shape
		# (every character present, many transitions): whatever it leaves
		# behind must not influence the repeated call
		rd = gen.pyrng("C02distract", L, A, params["n"])
		D = to_ohe(numpy.array([[(j * 7 + b + rd.randrange(A)) % A
			for j in range(L)] for b in range(B)]), A, X.dtype)
		gen.call(f, D, **dict(kw, random_state=rd.randrange(1000)))
		st2, val2 = gen.call(f, X, **kw)
		if st2 != "ok" or not torch.equal(val, val2):
			rec.violation(cls, params, {"what": "same integer seed, different "
				"result on the second call"}, mech="C02/nondeterministic")
			return
		if params.get("seedkind") == "npint":
			# and the same function of the seed's value as for a Python int
			st3, val3 = gen.call(f, X, **dict(kw, random_state=int(
				params["seed"])))
			if st3 != "ok" or not torch.equal(val, val3):
				rec.violation(cls, params, {"what": "numpy.int64 seed and "
					"the equal Python int seed give different results"},
					mech="C02/nondeterministic")
				return
		rec.count("determinism_pairs", B)
	nt = sum(1 for b in range(B) if nontrivial_region(idx[b], s, e))
	rec.bulk_held(cls, B, nt, sample=params)


_draw = None


def _numba_draw():
	global _draw
	if _draw is None:
		import numba

		@numba.njit
		def d():
			return numpy.random.random()
		_draw = d
	return _draw()


# ---- the walk under an enumerating permutation source ---------------------

class PermSource:
	"""Replaces numpy.random.permutation inside the pure-Python walk.  Call k
	of a run returns self.assignment[k] (a tuple) when an assignment is set,
	and records the requested sizes."""

	def __init__(self):
		self.sizes = []
		self.assignment = None
		self.k = 0

	def reset(self, assignment=None):
		self.sizes = []
		self.assignment = assignment
		self.k = 0

	def __call__(self, n):
		n = int(n)
		self.sizes.append(n)
		k = self.k
		self.k += 1
		if n <= 0:
			return numpy.arange(0)
		if self.assignment is None:
			return numpy.arange(n)
		p = self.assignment[k]
		assert len(p) == n
		return numpy.array(p, dtype=numpy.int64)


def enumerate_walks(ersatz, seq_idx, A, rec, cls, params, cap):
	"""Runs _dinucleotide_shuffle on one sequence for every assignment of the
	internal permutations.  -> (number of walks, distinct outputs, complete)"""
	src = PermSource()
	captured = {}
	py = ersatz._fast_shuffle.py_func

	def wrapper(n_shuffles, n_chars, idxs, next_idxs, next_idxs_counts,
		counters, shuffled_sequences, random_state):
		captured["counts"] = next_idxs_counts
		captured["counters"] = counters
		captured["out"] = shuffled_sequences
		captured["done"] = False
		py(n_shuffles, n_chars, idxs, next_idxs, next_idxs_counts,
			counters, shuffled_sequences, random_state)
		captured["done"] = True

	X = to_ohe(seq_idx[None], A, torch.int8)[0]
	orig_perm, orig_seed = numpy.random.permutation, numpy.random.seed
	orig_fast = ersatz._fast_shuffle
	outputs = set()
	walks = 0
	complete = True
	try:
		numpy.random.permutation = src
		numpy.random.seed = lambda *a, **k: None
		ersatz._fast_shuffle = wrapper
		src.reset(None)
		st, val = gen.call(ersatz._dinucleotide_shuffle, X, n_shuffles=1,
			random_state=0)
		sizes = list(src.sizes)
		spaces = [list(itertools.permutations(range(n))) if n > 0 else [()]
			for n in sizes]
		total = 1
		for s in spaces:
			total *= len(s)
		if total > cap:
			complete = False
			r = gen.pyrng("C02walk", strs(seq_idx[None], A)[0])
			assignments = (tuple(r.choice(s) for s in spaces)
				for _ in range(cap))
		else:
			assignments = itertools.product(*spaces)
		for asg in assignments:
			src.reset(asg)
			st, val = gen.call(ersatz._dinucleotide_shuffle, X, n_shuffles=1,
				random_state=0)
			walks += 1
			rec.count("walks_enumerated")
			if st == "raise" and captured.get("done"):
				# the walk itself finished; the caller refused afterwards
				# (e.g. region too short) - judge the walk's own arrays
				rec.count("walk_finished_but_caller_raised")
				val = torch.from_numpy(captured["out"].copy())
			elif st == "raise":
				rec.violation(cls, params, {"what": "walk raised",
					"sequence": strs(seq_idx[None], A)[0],
					"permutations": [list(p) for p in asg],
					"error": repr(val)[:300]}, mech="C02/walk-stranded")
				return walks, len(outputs), complete
			if list(src.sizes) != sizes:
				rec.note("permutation sizes changed between runs")
			cnt, ctr = captured["counts"], captured["counters"][0]
			d = check_shuffle_output("di", seq_idx, val, 0, len(seq_idx), A)
			if d is None and (cnt != ctr).any():
				d = {"what": "walk returned with unconsumed transitions",
					"counters": ctr.tolist(), "available": cnt.tolist()}
			if d is not None:
				d.update(sequence=strs(seq_idx[None], A)[0],
					permutations=[list(p) for p in asg])
				rec.violation(cls, params, d, mech="C02/walk-stranded"
					if "walk" in d["what"] or "one-hot" in d["what"]
					else "C02/composition")
				return walks, len(outputs), complete
			outputs.add(val.numpy().tobytes())
	finally:
		numpy.random.permutation, numpy.random.seed = orig_perm, orig_seed
		ersatz._fast_shuffle = orig_fast
	return walks, len(outputs), complete


WALK_SIGNATURE = ["n_shuffles", "n_chars", "idxs", "next_idxs",
	"next_idxs_counts", "counters", "shuffled_sequences", "random_state"]


def walk_hook_applicable(ersatz):
	"""The precise monitor above reads the kernel's own counters and therefore
	depends on the private kernel `_fast_shuffle(...)` having the arguments it
	was written for."""
	import inspect
	if os.environ.get("VERIF_C02_GENERIC_WALK") == "1":
		return False          # exercise the fallback on the current kernel
	f = getattr(ersatz, "_fast_shuffle", None)
	py = getattr(f, "py_func", None)
	if py is None or not hasattr(ersatz, "_dinucleotide_shuffle"):
		return False
	try:
		return list(inspect.signature(py).parameters) == WALK_SIGNATURE
	except (TypeError, ValueError):
		return False


class Unenumerable(Exception):
	pass


class ChoiceTree:
	"""Replay-based exhaustive exploration of the random choices a run makes:
	choose(n) returns an index in range(n); successive runs walk the tree of
	choices depth first (stateless model checking)."""

	def __init__(self):
		self.stack = []
		self.pos = 0

	def start(self):
		self.pos = 0

	def choose(self, n):
		n = int(n)
		if n <= 1:
			return 0
		if self.pos < len(self.stack):
			c = self.stack[self.pos][0]
		else:
			self.stack.append([0, n])
			c = 0
		self.pos += 1
		return c

	def advance(self):
		"""-> False when every leaf has been visited."""
		del self.stack[self.pos:]
		while self.stack and self.stack[-1][0] == self.stack[-1][1] - 1:
			self.stack.pop()
		if not self.stack:
			return False
		self.stack[-1][0] += 1
		return True


def enumerate_walks_generic(ersatz, seq_idx, A, rec, cls, params, cap):
	"""Implementation-independent variant: every compiled function of the
	module is replaced by its Python original, numpy's random primitives by
	an enumerating source, and the PUBLIC dinucleotide_shuffle is run for
	every outcome of those primitives; only what it returns is judged."""
	import math
	tree = ChoiceTree()
	perms = {}

	def nth_perm(n, k):
		if n not in perms:
			perms[n] = list(itertools.permutations(range(n)))
		return perms[n][k]

	def permutation(x):
		if isinstance(x, (int, numpy.integer)):
			n = int(x)
			if n > 7:
				raise Unenumerable("permutation of %d" % n)
			return numpy.array(nth_perm(n, tree.choose(math.factorial(n))),
				dtype=numpy.int64)
		a = numpy.array(x)
		if len(a) > 7:
			raise Unenumerable("permutation of %d" % len(a))
		return a[list(nth_perm(len(a), tree.choose(math.factorial(len(a)))))]

	def shuffle(a):
		n = len(a)
		if n > 7:
			raise Unenumerable("shuffle of %d" % n)
		p = list(nth_perm(n, tree.choose(math.factorial(n))))
		a[:] = numpy.array(a)[p]

	def randint(low, high=None, size=None):
		if size is not None:
			raise Unenumerable("randint with size")
		if high is None:
			low, high = 0, low
		return int(low) + tree.choose(int(high) - int(low))

	def unsupported(*a, **k):
		raise Unenumerable("continuous random primitive")

	names = {"permutation": permutation, "shuffle": shuffle,
		"randint": randint, "seed": lambda *a, **k: None,
		"random": unsupported, "rand": unsupported, "choice": unsupported,
		"random_sample": unsupported, "uniform": unsupported}
	saved_np = {k: getattr(numpy.random, k) for k in names}
	saved_jit = {k: v for k, v in vars(ersatz).items() if hasattr(v,
		"py_func")}
	X = to_ohe(seq_idx[None], A, torch.int8)
	outputs = set()
	walks = 0
	complete = True
	try:
		for k, f in names.items():
			setattr(numpy.random, k, f)
		for k, v in saved_jit.items():
			setattr(ersatz, k, v.py_func)
		while True:
			tree.start()
			st, val = gen.call(ersatz.dinucleotide_shuffle, X, n=1,
				random_state=0)
			walks += 1
			rec.count("walks_enumerated")
			rec.count("walks_enumerated_generic")
			if st == "raise" and isinstance(val, Unenumerable):
				complete = False
				break
			if st == "ok":
				d = check_shuffle_output("di", seq_idx, val[0], 0, len(
					seq_idx), A)
				if d is not None:
					d.update(sequence=strs(seq_idx[None], A)[0],
						choices=[c for c, _ in tree.stack])
					rec.violation(cls, params, d, mech="C02/walk-stranded"
						if "one-hot" in d["what"] else "C02/composition")
					return walks, len(outputs), complete
				outputs.add(val.numpy().tobytes())
			if walks >= cap:
				complete = False
				break
			if not tree.advance():
				break
	finally:
		for k, f in saved_np.items():
			setattr(numpy.random, k, f)
		for k, v in saved_jit.items():
			setattr(ersatz, k, v)
	return walks, len(outputs), complete


def case_walk(cls, params, rec):
	from tangermeme import ersatz
	A = params["A"]
	al = alpha(A)
	idx = numpy.array([al.index(c) for c in params["seq"]], dtype=numpy.int64)
	if not walk_hook_applicable(ersatz):
		rec.count("walk_hook_not_applicable")
		walks, distinct, complete = enumerate_walks_generic(ersatz, idx, A,
			rec, cls, params, params.get("cap", 5040))
		rec.maxv("max_distinct_outputs_of_one_sequence", distinct)
		rec.maxv("max_walks_of_one_sequence", walks)
		return walks, complete
	walks, distinct, complete = enumerate_walks(ersatz, idx, A, rec, cls,
		params, params.get("cap", 5040))
	rec.maxv("max_distinct_outputs_of_one_sequence", distinct)
	rec.maxv("max_walks_of_one_sequence", walks)
	return walks, complete


# ---------------------------------------------------------------------------

def run_case(cls, params, rec):
	if params.get("kind") == "walk":
		before = rec.n_violations
		walks, complete = case_walk(cls, params, rec)
		if rec.n_violations == before:
			rec.bulk_held(cls, walks, walks if len(set(params["seq"])) >= 2
				and len(params["seq"]) >= 3 else 0, sample=params)
		return
	case_api(cls, params, rec)


def plan(tier, seed):
	units = []
	if tier == "quick":
		Lw, La, nrand = 6, 5, 24
	else:
		Lw, La, nrand = 8, 7, 400
	for A in (2, 3, 4):
		for L in range(1, Lw + 1):
			n = A ** L
			nparts = max(1, n // 2048)
			for part in range(nparts):
				units.append({"cls": "walk", "A": A, "L": L, "part": part,
					"nparts": nparts, "weight": 1 + n / nparts / 20})
		for L in range(1, La + 1):
			for fn in ("shuffle", "dinucleotide_shuffle"):
				units.append({"cls": "api-exh", "fn": fn, "A": A, "L": L,
					"seed": seed, "weight": 1 + (A ** L) * L * L / 2000})
	for k in range(nrand):
		units.append({"cls": "api-rand", "k": k, "seed": seed, "weight": 4})
	# very long regions (position tables beyond 2**15 and 2**16)
	for k in range(3 if tier == "quick" else 24):
		units.append({"cls": "api-long", "k": k, "seed": seed, "weight": 6})
	# compiled kernel under bounds checking
	for k in range(4 if tier == "quick" else 32):
		units.append({"cls": "api-rand", "k": 10000 + k, "seed": seed,
			"weight": 4, "boundscheck": True,
			"env": {"NUMBA_BOUNDSCHECK": "1"}})
	return units


def run_unit(unit, rec):
	if unit["cls"] == "walk":
		A, L = unit["A"], unit["L"]
		allidx = idx_all(A, L)
		al = alpha(A)
		complete = True
		for i in range(unit["part"], len(allidx), unit["nparts"]):
			seq = "".join(al[j] for j in allidx[i])
			before = rec.n_violations
			walks, comp = case_walk("walk-enumerated", {"kind": "walk",
				"A": A, "seq": seq}, rec)
			complete = complete and comp
			if rec.n_violations == before:
				rec.bulk_held("walk-enumerated", walks,
					walks if len(set(seq)) >= 2 and L >= 3 else 0,
					sample={"kind": "walk", "A": A, "seq": seq,
						"walks": walks})
		rec.mark_exhaustive("walk-enumerated", complete)
		if not complete:
			rec.count("walk_sequences_sampled_not_enumerated")
	elif unit["cls"] == "api-exh":
		A, L, fn = unit["A"], unit["L"], unit["fn"]
		cls = "exh-" + fn
		k = 0
		for s in range(0, L):
			for e in range(s + 1, L + 1):
				for seed in (0, 1 + unit["seed"]):
					k += 1
					run_case(cls, {"fn": fn, "A": A, "seqs": "all:%d" % L,
						"start": s, "end": e, "n": 1 + k % 3, "seed": seed,
						"determinism": k % 4 == 0,
						"seedkind": "npint" if k % 8 == 0 else "int"}, rec)
		run_case(cls, {"fn": fn, "A": A, "seqs": "all:%d" % L,
			"default": True, "n": 2, "seed": 3}, rec)
		# ends counted from the right-hand edge
		for s in range(0, L):
			for e in range(-2, -L - 1, -1):
				if L + 1 + e > s:
					run_case(cls, {"fn": fn, "A": A, "seqs": "all:%d" % L,
						"start": s, "end": e, "n": 2, "seed": 5,
						"determinism": False}, rec)
		rec.mark_exhaustive(cls)
	elif unit["cls"] == "api-long":
		r = gen.pyrng("C02long", unit["seed"], unit["k"])
		A = r.choice([2, 4, 4])
		al = alpha(A)
		L = [33000, 40000, 70000, 66000, 131100][unit["k"] % 5] + r.randint(
			0, 50)
		seq = gen.rand_seq(r, L, al)
		for fn in ("dinucleotide_shuffle", "shuffle"):
			for reg in ((0, L), (1, L - 1), "default", (L - 32800, L)):
				pr = {"fn": fn, "A": A, "seqs": [seq], "n": r.randint(1, 2),
					"seed": r.randrange(1000), "determinism": False}
				if reg == "default":
					pr["default"] = True
				else:
					pr["start"], pr["end"] = reg
				run_case("long-" + fn, pr, rec)
				rec.count("long_region_calls")
	else:
		r = gen.pyrng("C02", unit["seed"], unit["k"])
		if unit.get("boundscheck"):
			rec.count("boundscheck_units")
		for it in range(12):
			A = r.choice([2, 3, 4, 4, 4])
			al = alpha(A)
			L = r.choice([3, 4, 5, 8, 16, 50, 200, r.randint(3, 2000)])
			B = r.randint(1, 5)
			seqs = [gen.rand_seq(r, L, al[:r.randint(1, A)] if r.random() < .2
				else al) for _ in range(B)]
			fn = r.choice(["shuffle", "dinucleotide_shuffle"])
			regions = [(0, L), (0, L - 1), (1, L), "default"]
			a, b = sorted(r.sample(range(0, L + 1), 2))
			regions.append((a, b))
			if b < L:
				regions.append((a, b - L - 1))
			for reg in regions:
				pr = {"fn": fn, "A": A, "seqs": seqs, "n": r.randint(1, 20),
					"seed": r.choice([None, 0, 1, 12345, unit["seed"] + 99]),
					"seedkind": r.choice(["int", "int", "npint"]),
					"xdtype": r.choice(["int8", "float32", "float64"])}
				if reg == "default":
					pr["default"] = True
				else:
					pr["start"], pr["end"] = reg
				run_case("rand-" + fn + ("-boundscheck" if unit.get(
					"boundscheck") else ""), pr, rec)
