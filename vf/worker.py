"""Worker process: executes the units of one chunk under the monitors of one
property module and writes the merged Recorder to a JSON file."""

import importlib
import json
import os
import sys
import time
import traceback


def main(spec_path, out_path):
	with open(spec_path) as fh:
		spec = json.load(fh)
	import torch
	torch.set_num_threads(int(os.environ.get("VERIF_TORCH_THREADS", "1")))
	if os.environ.get("VERIF_DEFAULT_DTYPE"):
		# environment variant: the caller's process-wide torch default dtype
		torch.set_default_dtype(getattr(torch, os.environ[
			"VERIF_DEFAULT_DTYPE"]))
	import warnings
	warnings.filterwarnings("ignore", category=DeprecationWarning)
	from .rec import Recorder
	mod = importlib.import_module("vf.props." + spec["property"].lower())
	rec = Recorder(classify=getattr(mod, "classify", None))
	errors = []
	done = 0
	cur_path = spec_path.replace(".in.json", ".cur.json")
	t_start = time.time()
	budget = float(os.environ.get("VERIF_WORKER_BUDGET", "0"))
	for unit in spec["units"]:
		with open(cur_path, "w") as fh:
			json.dump(unit, fh)
		rec.cur_env = unit.get("env") or {}
		if os.environ.get("VERIF_DEFAULT_DTYPE"):
			rec.count("units_under_default_dtype_" + os.environ[
				"VERIF_DEFAULT_DTYPE"])
		if os.environ.get("MALLOC_PERTURB_"):
			rec.count("units_under_malloc_perturb_" + os.environ[
				"MALLOC_PERTURB_"])
		try:
			if unit.get("cls") == "__replay__":
				case = unit["case"]
				fn = getattr(mod, "replay", None)
				if fn is not None:
					fn(case, rec)
				else:
					mod.run_case(case["class"], case["params"], rec)
			else:
				mod.run_unit(unit, rec)
			done += 1
		except BaseException as e:  # harness bug or an unwrapped repo error
			if isinstance(e, (KeyboardInterrupt, SystemExit)) and False:
				raise
			errors.append("unit %s: %s" % (json.dumps(unit)[:300],
				traceback.format_exc()[-2500:]))
		if budget and time.time() - t_start > budget:
			rec.note("worker budget reached after %d units" % done)
			break
	try:
		os.remove(cur_path)
	except OSError:
		pass
	tmp = out_path + ".tmp"
	with open(tmp, "w") as fh:
		json.dump({"rec": rec.dump(), "harness_errors": errors,
			"units_done": done}, fh, default=str)
	os.replace(tmp, out_path)


if __name__ == "__main__":
	main(sys.argv[1], sys.argv[2])
