"""C10  Variant-effect functions evaluate exactly the string-level edited sequences.

Monitor: variant_effect.substitution_effect / deletion_effect /
insertion_effect are executed on generated variant lists and observed at the
point where the sequences reach `func`:

  * a capturing `func` supplied by the harness (signature of predict:
    func(model, X, args=None, **kwargs)) that returns a clone of the X it was
    handed, so the returned pair (y_before, y_after) *is* the pair of tensors
    that reached func;
  * the default func=predict with an identity model (device='cpu').

Oracle: every example is edited as a Python string by harness code
(substitutions overwrite; deletions remove the named positions, then trim
max_deleted - deleted_i further undeleted positions from the chosen side;
insertions are placed right-to-left before the named original coordinate and
the overhang is trimmed from the chosen side).  The tensors are decoded with a
validating decoder (values 0/1, every column a unit vector).  Variant lists
that cannot be honoured must raise.
"""

import itertools

import numpy
import torch

from .. import gen

ID = "C10"
LEVEL = "exploration"
RULE = ("one case = one call of substitution_effect / deletion_effect / "
	"insertion_effect for (batch of sequences, variant list, trim side, "
	"observation path capture|predict+identity).  Enumerated scope ('*-exh-*' "
	"classes): sequences of pairwise distinct letters (A=18, so every wrong "
	"position is visible), every subset of <= 3 positions per example "
	"(every B-tuple of subsets), both trim sides; B=1: L = 4..14; B=2: "
	"quick L = 4..9 (del/sub) / 4..7 (ins), thorough L = 4..14 (del/sub) / "
	"4..12 (ins); B=3 (deletions only): quick L = 4, thorough L = 4..6.  "
	"Sampled scope ('*-rand'): B 1-4, L 4-14, A in {4,5,18}, random "
	"sequences, subsets of <= 3 positions biased to the trimmed edge, rows "
	"in shuffled order, examples without variants.  "
	"'invalid-*' classes: one row that cannot be honoured (position < 0, "
	"position >= L, character >= A, character < 0, example >= B, example < "
	"0, conflicting substitution rows) among valid rows of other examples. "
	"Non-trivial = a variant touches the first/last position, or examples "
	"carry different numbers of variants (equalising trim needed), or a "
	"deleted position lies in / next to the trimmed flank, or rows are "
	"repeated, or the list is invalid; distinct = distinct parameter tuples.")
ASSUMPTIONS = [
	"left=True trims the left end (the last n positions are kept), "
	"left=False trims the right end - the reading shared by the docstrings "
	"and the property statement",
	"any Exception subclass counts as 'raises'",
	"negative positions / characters / example indices cannot be honoured "
	"(no Python wrap-around); each has its own mechanism key so it can be "
	"judged separately",
	"an insertion at coordinate L (append) may be refused or honoured; "
	"repeated identical deletion rows and several insertions at one "
	"coordinate may be refused; if honoured they must give the set-semantics "
	"/ any-order result",
	"identical repeated substitution rows (same example, position, "
	"character) are valid",
	"only the returned (y_before, y_after) pair is judged; how often func is "
	"called is recorded, not judged",
	"device='cpu'; variant tensors are int64",
]
REQUIRED = {"left_kind_npbool": 50, "left_kind_int": 50, "del_flank_touch": 50, "del_unequal_counts": 50,
	"zero_variant_example": 50, "ins_edge": 20, "sub_repeated_rows": 10,
	"must_raise_cases": 50, "predict_path_cases": 50,
	"capture_path_cases": 50}
TIMEOUT = {"quick": 900, "thorough": 5400}

AMAX = 18                       # len(gen.LETTERS)
WIDTH = {"sub": 3, "del": 2, "ins": 3}
DT = {"int8": torch.int8, "float32": torch.float32, "float64": torch.float64}

MECH_INVALID = {
	"neg-pos": "C10/negative-position-wraps",
	"pos-oob": "C10/position-out-of-range-accepted",
	"char-oob": "C10/character-out-of-range-accepted",
	"neg-char": "C10/negative-character-accepted",
	"example-oob": "C10/example-out-of-range-accepted",
	"neg-example": "C10/negative-example-accepted",
	"conflict": "C10/conflicting-substitutions-accepted",
}
MECH_WRONG = {"sub": "C10/wrong-substitution", "del": "C10/wrong-deletion",
	"ins": "C10/wrong-insertion"}


# ---------------------------------------------------------------------------
# own encoder / decoder

_enc_cache = {}


def encode(seqs, A, dtype):
	"""list of equal-length strings -> fresh (B, A, L) tensor."""
	key = (tuple(seqs), A)
	a = _enc_cache.get(key)
	if a is None:
		al = gen.LETTERS[:A]
		a = numpy.zeros((len(seqs), A, len(seqs[0])), dtype=numpy.int8)
		for b, s in enumerate(seqs):
			for i, ch in enumerate(s):
				a[b, al.index(ch), i] = 1
		if len(_enc_cache) > 64:
			_enc_cache.clear()
		_enc_cache[key] = a
	return torch.from_numpy(a.copy()).type(dtype)


def dec(t, A):
	"""validating decoder -> (list of strings, None) or (None, reason)."""
	if not isinstance(t, torch.Tensor):
		return None, "not a tensor: %s" % type(t).__name__
	a = t.detach().cpu().numpy()
	if a.ndim != 3 or a.shape[1] != A:
		return None, "shape %s" % (tuple(a.shape),)
	if not ((a == 0) | (a == 1)).all():
		return None, "values other than 0/1"
	s = a.sum(axis=1)
	if not (s == 1).all():
		b, p = numpy.argwhere(s != 1)[0]
		return None, "example %d position %d has column %s" % (b, p,
			a[b, :, p].astype(int).tolist())
	idx = a.argmax(axis=1)
	al = gen.LETTERS[:A]
	return ["".join(al[j] for j in row) for row in idx], None


def disp(t, A):
	"""lenient rendering for violation details."""
	if not isinstance(t, torch.Tensor):
		return repr(t)[:80]
	a = t.detach().cpu().numpy()
	if a.ndim != 3 or a.shape[1] != A:
		return "tensor of shape %s" % (tuple(a.shape),)
	al = gen.LETTERS[:A]
	out = []
	for b in range(a.shape[0]):
		chars = []
		for i in range(a.shape[2]):
			col = a[b, :, i]
			nz = numpy.nonzero(col)[0]
			if len(nz) == 1 and col[nz[0]] == 1:
				chars.append(al[nz[0]])
			elif len(nz) == 0:
				chars.append("-")
			else:
				chars.append("[" + "".join(al[j] for j in nz) + "]")
		out.append("".join(chars))
	return out


# ---------------------------------------------------------------------------
# oracle: string edits

def edit_sub(s, rows):
	l = list(s)
	for p, c in rows:
		l[p] = c
	return "".join(l)


def edit_del(s, D, total, left):
	keep = [i for i in range(len(s)) if i not in D]
	extra = total - len(D)
	if extra > 0:
		keep = keep[extra:] if left else keep[:len(keep) - extra]
	return "".join(s[i] for i in keep)


def edit_ins(s, rows, left):
	"""rows: (pos, ch) in the order in which equal positions are to appear;
	-> string of the original length."""
	L = len(s)
	l = list(s)
	order = sorted(range(len(rows)), key=lambda k: (rows[k][0], k))
	for k in reversed(order):
		l.insert(rows[k][0], rows[k][1])
	l = l[len(rows):] if left else l[:L]
	return "".join(l)


def flank_touch(D, L, extra, left):
	"""a deleted position lies inside the equalising flank or directly next
	to it (with extra == 0: at the very edge on the trim side)."""
	seen = 0
	rng = range(L) if left else range(L - 1, -1, -1)
	for i in rng:
		if i in D:
			if seen <= extra:
				return True
		else:
			seen += 1
			if seen > extra:
				return False
	return False


def analyse(fn, variants, B, L, A):
	"""-> (kind, info).  kind: 'valid' | one of MECH_INVALID | 'ins-at-L' |
	'del-repeated' | 'ins-same-pos' (the last three: may be refused)."""
	for r in variants:
		if r[0] < 0:
			return "neg-example"
	for r in variants:
		if r[0] >= B:
			return "example-oob"
	for r in variants:
		if r[1] < 0:
			return "neg-pos"
	for r in variants:
		if r[1] > L or (r[1] == L and fn != "ins"):
			return "pos-oob"
	if fn != "del":
		for r in variants:
			if r[2] < 0:
				return "neg-char"
		for r in variants:
			if r[2] >= A:
				return "char-oob"
	if fn == "sub":
		seen = {}
		for b, p, c in variants:
			if seen.setdefault((b, p), c) != c:
				return "conflict"
	if fn == "ins":
		if any(r[1] == L for r in variants):
			return "ins-at-L"
		if len({(r[0], r[1]) for r in variants}) != len(variants):
			return "ins-same-pos"
	if fn == "del":
		if len({(r[0], r[1]) for r in variants}) != len(variants):
			return "del-repeated"
	return "valid"


def expected(fn, seqs, variants, left, A):
	"""-> (before strings, list of acceptable 'after' string lists, info)"""
	al = gen.LETTERS[:A]
	B, L = len(seqs), len(seqs[0])
	per = [[] for _ in range(B)]
	for r in variants:
		per[r[0]].append(tuple(r[1:]))
	info = {"per": per}
	if fn == "sub":
		after = [edit_sub(s, [(p, al[c]) for p, c in per[b]])
			for b, s in enumerate(seqs)]
		return list(seqs), [after], info
	if fn == "del":
		Ds = [set(p for (p,) in per[b]) for b in range(B)]
		total = max(len(D) for D in Ds)
		info["total"] = total
		info["Ds"] = Ds
		after = [edit_del(s, Ds[b], total, left) for b, s in enumerate(seqs)]
		before = [s[total:] if left else s[:L - total] for s in seqs]
		return before, [after], info
	# insertions: several rows at one coordinate may appear in any order
	alts = [[]]
	for b, s in enumerate(seqs):
		rows = [(p, al[c]) for p, c in per[b]]
		if len({p for p, _ in rows}) == len(rows):
			opts = [edit_ins(s, rows, left)]
		else:
			opts = sorted({edit_ins(s, list(pm), left)
				for pm in itertools.permutations(rows)})
		alts = [a + [o] for a in alts for o in opts]
	return list(seqs), alts, info


# ---------------------------------------------------------------------------
# the monitored call

class Ident(torch.nn.Module):
	def forward(self, X):
		return X.clone()


SEEN = {}
LAST = {}


def execute(fn, X, V, left, via):
	"""-> (status, value, number of func invocations or None)"""
	from tangermeme import variant_effect
	f = {"sub": variant_effect.substitution_effect,
		"del": variant_effect.deletion_effect,
		"ins": variant_effect.insertion_effect}[fn]
	kw = {} if fn == "sub" else {"left": left}
	if fn != "sub":
		# the object that carries the flag: a Python bool, a numpy bool (the
		# result of a comparison on an array, e.g. strand == '-') or 0 / 1
		lk = ("bool", "bool", "npbool", "int")[gen.pyrng("C10left", fn, left,
			repr(X.shape), repr(V.tolist())[:200]).randrange(4)]
		kw["left"] = {"bool": bool, "npbool": numpy.bool_, "int": int}[lk](
			left)
		SEEN["left_kind_" + lk] = SEEN.get("left_kind_" + lk, 0) + 1
		LAST["left_kind"] = lk
	if via == "capture":
		calls = []

		def cap(model, X, args=None, **kwargs):
			calls.append(1)
			return X.clone()

		st, val = gen.call(f, None, X, V, func=cap, **kw)
		return st, val, len(calls)
	st, val = gen.call(f, Ident(), X, V, device="cpu", **kw)
	return st, val, None


def cross_contaminated(fn, seqs, info, left, A, got, exp):
	"""does a wrong example equal its sequence edited with (also) another
	example's variants?"""
	al = gen.LETTERS[:A]
	per = info["per"]
	B = len(seqs)
	for b in range(B):
		if b >= len(got) or got[b] == exp[b]:
			continue
		for c in range(B):
			if c == b or not per[c] or sorted(per[c]) == sorted(per[b]):
				continue
			for rows in (per[c], per[b] + per[c], per[c] + per[b]):
				try:
					if fn == "sub":
						alt = edit_sub(seqs[b], [(p, al[ch]) for p, ch in rows])
					elif fn == "del":
						D = set(p for (p,) in rows)
						tot = max(info["total"], len(D))
						alt = edit_del(seqs[b], D, tot, left)
					else:
						rr = [(p, al[ch]) for p, ch in rows]
						if len({p for p, _ in rr}) != len(rr):
							continue
						alt = edit_ins(seqs[b], rr, left)
				except (IndexError, ValueError):
					continue
				if alt == got[b]:
					return b, c
	return None


def run_case(cls, params, rec):
	fn = params["fn"]
	A = params["A"]
	seqs = list(params["seqs"])
	B, L = len(seqs), len(seqs[0])
	variants = [list(r) for r in params["variants"]]
	left = bool(params.get("left", False))
	via = params.get("via", "capture")
	X = encode(seqs, A, DT[params.get("xdtype", "int8")])
	V = torch.tensor(variants, dtype=torch.int64).reshape(-1, WIDTH[fn])
	# same values handed over in another memory layout
	params, X, _ = gen.apply_layout(params, rec, X)
	_, V, _ = gen.apply_layout(params, rec, V, "variants")
	kind = analyse(fn, variants, B, L, A)

	st, val, ncalls = execute(fn, X, V, left, via)
	rec.count("predict_path_cases" if via == "predict" else
		"capture_path_cases")
	if ncalls is not None and st == "ok":
		rec.setadd("func_calls_per_case", ncalls)

	base = {"fn": fn, "sequences": seqs, "variants": variants, "left": left,
		"via": via}

	# ---- lists that cannot be honoured --------------------------------
	if kind in MECH_INVALID:
		rec.count("must_raise_cases")
		rec.count("must_raise:" + kind)
		if st == "raise":
			rec.setadd("raise_types:" + kind, type(val).__name__)
			rec.held(cls, params, nontrivial=True)
			return
		d = dict(base, what="variant list cannot be honoured (%s) but a "
			"result was returned" % kind)
		if isinstance(val, (tuple, list)) and len(val) == 2:
			d["got_before"] = disp(val[0], A)
			d["got_after"] = disp(val[1], A)
		rec.violation(cls, params, d, mech=MECH_INVALID[kind])
		return

	before, afters, info = expected(fn, seqs, variants, left, A)
	per = info["per"]
	touch = False
	if fn == "del":
		touch = any(flank_touch(info["Ds"][b], L, info["total"] - len(
			info["Ds"][b]), left) for b in range(B))

	# ---- measured non-triviality --------------------------------------
	counts = [len(set(p)) for p in per]
	unequal = len(set(counts)) > 1
	zero_ex = min(counts) == 0 and max(counts) > 0
	edge = any(r[1] in (0, L - 1) for r in variants)
	repeated = len({tuple(r) for r in variants}) != len(variants)
	if zero_ex:
		rec.count("zero_variant_example")
	if fn == "del":
		if touch:
			rec.count("del_flank_touch")
		if unequal:
			rec.count("del_unequal_counts")
		if edge:
			rec.count("del_edge")
	elif fn == "ins":
		if edge:
			rec.count("ins_edge")
		if unequal:
			rec.count("ins_unequal_counts")
	else:
		if repeated:
			rec.count("sub_repeated_rows")
		if edge:
			rec.count("sub_edge")
	nontriv = bool(touch or unequal or edge or repeated or kind != "valid")

	# ---- raise on a list that can be honoured -------------------------
	if st == "raise":
		if kind != "valid":
			rec.refusal(cls, params, repr(val)[:200])
			return
		if fn != "sub" and LAST.get("left_kind", "bool") != "bool":
			# only Python bools are documented values of `left`
			rec.refusal(cls, params, "left given as %s refused: %s" % (
				LAST["left_kind"], repr(val)[:100]))
			return
		d = dict(base, what="raised on a valid variant list",
			error=repr(val)[:300], expected_after=afters[0])
		if (fn == "del" and touch and isinstance(val, RuntimeError)
			and "shape" in str(val)):
			d["what"] = ("reshape error: a deleted position in / next to the "
				"trimmed flank was kept, examples end up with different "
				"lengths")
			rec.violation(cls, params, d,
				mech="C10/deletion-in-trimmed-flank")
			return
		rec.violation(cls, params, d, mech="C10/valid-variants-refused")
		return

	# ---- returned: judge (y_before, y_after) --------------------------
	if not (isinstance(val, (tuple, list)) and len(val) == 2):
		rec.violation(cls, params, dict(base, what="return value is not a "
			"(before, after) pair: %s" % type(val).__name__),
			mech="C10/return-format")
		return
	got_a, why_a = dec(val[1], A)
	if got_a is None or got_a not in afters:
		d = dict(base, what="'after' is not the string-level edit" + (
			"" if got_a is not None else " (not one-hot: %s)" % why_a),
			got_after=got_a if got_a is not None else disp(val[1], A),
			expected_after=afters[0] if len(afters) == 1 else afters[:6])
		mech = MECH_WRONG[fn]
		if fn == "del" and touch:
			mech = "C10/deletion-in-trimmed-flank"
			d["note"] = ("a deleted position lies in / next to the flank "
				"trimmed to equalise lengths")
		elif got_a is not None:
			cc = cross_contaminated(fn, seqs, info, left, A, got_a,
				afters[0])
			if cc is not None:
				mech = "C10/cross-example-contamination"
				d["note"] = ("example %d looks edited with the variants of "
					"example %d" % cc)
		rec.violation(cls, params, d, mech=mech)
		return
	got_b, why_b = dec(val[0], A)
	if got_b is None or got_b != before:
		d = dict(base, what="'before' is not the reference trimmed to the "
			"same length from the same side" + ("" if got_b is not None
			else " (not one-hot: %s)" % why_b),
			got_before=got_b if got_b is not None else disp(val[0], A),
			expected_before=before, got_after=got_a)
		rec.violation(cls, params, d, mech="C10/wrong-before")
		return
	if params.get("bulk"):
		rec.bulk_held(cls, 1, 1 if nontriv else 0, sample=params)
	else:
		rec.held(cls, params, nontrivial=nontriv)


# ---------------------------------------------------------------------------
# workload

SEQ_LETTERS = 14      # letters used by the 'distinct' sequences
INS_LETTERS = gen.LETTERS[SEQ_LETTERS:AMAX]   # never occur in those sequences


def distinct_seqs(B, L):
	"""example b = L pairwise distinct letters, different for every b."""
	al = gen.LETTERS[:SEQ_LETTERS]
	off = (0, 8, 3, 11)       # pairwise different at every position
	return ["".join(al[(off[b] + i) % SEQ_LETTERS] for i in range(L))
		for b in range(B)]


def subsets(L, kmax=3):
	out = []
	for k in range(0, kmax + 1):
		out.extend(itertools.combinations(range(L), k))
	return out


def rows_for(fn, b, S, seq, c, A=AMAX):
	"""variant rows of example b for the position set S (deterministic
	characters depending on the counter c)."""
	al = gen.LETTERS[:A]
	rows = []
	for j, p in enumerate(S):
		if fn == "del":
			rows.append([b, p])
		elif fn == "ins":
			rows.append([b, p, al.index(INS_LETTERS[(c + j + b) % len(
				INS_LETTERS)])])
		else:
			m = (c + j) % 4
			if m == 0:        # letter that does not occur in the sequence
				ch = INS_LETTERS[(c // 4 + j) % len(INS_LETTERS)]
			elif m == 1:      # the letter already there (identity)
				ch = seq[p]
			elif m == 2:      # a letter that occurs elsewhere in the sequence
				ch = seq[(p + 1 + c // 4) % len(seq)]
			else:
				ch = al[(c // 4 + 7 * j) % A]
			rows.append([b, p, al.index(ch)])
	return rows


def perturb_rows(fn, rows, c):
	"""deterministic row order variation (+ identical repeated rows for
	substitutions)."""
	if fn == "sub" and rows and c % 3 == 0:
		rows = rows + [list(rows[c // 3 % len(rows)])]
	if c % 2 and len(rows) > 1:
		k = c // 2 % len(rows)
		rows = rows[k:] + rows[:k]
		if c % 4 == 3:
			rows = rows[::-1]
	return rows


def exh_Lmax(tier, fn, B):
	"""largest L whose B-tuples of subsets are enumerated completely."""
	if B == 1:
		return 14
	if B == 2:
		if tier == "thorough":
			return 12 if fn == "ins" else 14
		return 7 if fn == "ins" else 9
	if B == 3 and fn == "del":
		return 6 if tier == "thorough" else 4
	return 0


def plan(tier, seed):
	units = []
	cost = {"del": 1.0, "sub": 1.0, "ins": 3.0}
	for fn in ("del", "ins", "sub"):
		sides = (False, True) if fn != "sub" else (False,)
		for L in range(4, 15):
			n = len(subsets(L))
			for left in sides:
				for B in (1, 2, 3):
					if L > exh_Lmax(tier, fn, B):
						continue
					tot = n ** B * (2 if B == 1 else 1)
					nparts = max(1, min(n, -int(-cost[fn] * tot // 6000)))
					for k in range(nparts):
						units.append({"cls": "exh", "fn": fn, "L": L, "B": B,
							"left": left, "part": k, "nparts": nparts,
							"weight": cost[fn] * tot / nparts / 1000.0 + 0.05})
	nrand = 24 if tier == "quick" else 240
	for fn in ("del", "ins", "sub"):
		for k in range(nrand):
			units.append({"cls": "rand", "fn": fn, "k": k, "seed": seed,
				"n": 150, "weight": cost[fn] * 0.3})
	Ls = (4, 5, 9, 14) if tier == "quick" else tuple(range(4, 15))
	for fn in ("del", "ins", "sub"):
		for L in Ls:
			units.append({"cls": "invalid", "fn": fn, "L": L, "seed": seed,
				"weight": 0.5})
			units.append({"cls": "maybe", "fn": fn, "L": L, "seed": seed,
				"weight": 0.2})
	return units


def run_unit(unit, rec):
	{"exh": run_exh, "rand": run_rand, "invalid": run_invalid,
		"maybe": run_maybe}[unit["cls"]](unit, rec)
	for k in list(SEEN):
		rec.count(k, SEEN.pop(k))


def run_exh(unit, rec):
	fn, L, B, left = unit["fn"], unit["L"], unit["B"], unit["left"]
	cls = "%s-exh-B%d" % (fn, B)
	seqs = distinct_seqs(B, L)
	subs = subsets(L)
	c = 0
	if B == 1:
		for S in subs:
			c += 1
			rows = perturb_rows(fn, rows_for(fn, 0, S, seqs[0], c), c)
			for via in ("capture", "predict"):
				run_case(cls, {"fn": fn, "A": AMAX, "seqs": seqs,
					"variants": rows, "left": left, "via": via,
					"xdtype": "float32" if c % 7 == 0 else "int8",
					"bulk": 1}, rec)
	else:
		n = len(subs)
		for i0, S0 in enumerate(subs):
			if i0 % unit["nparts"] != unit["part"]:
				continue
			for rest in itertools.product(range(n), repeat=B - 1):
				c = i0
				for i in rest:
					c = c * n + i
				rows = rows_for(fn, 0, S0, seqs[0], c)
				for b, i in enumerate(rest):
					rows += rows_for(fn, b + 1, subs[i], seqs[b + 1], c + b + 1)
				rows = perturb_rows(fn, rows, c)
				run_case(cls, {"fn": fn, "A": AMAX, "seqs": seqs,
					"variants": rows, "left": left,
					"via": "predict" if c % 5 == 0 else "capture",
					"xdtype": "float32" if c % 7 == 0 else "int8",
					"bulk": 1}, rec)
	rec.mark_exhaustive(cls)


def rand_positions(r, L, k, left, edge_bias):
	"""k distinct positions, optionally concentrated at the trimmed edge."""
	k = min(k, L)
	if edge_bias:
		w = min(L, k + r.randint(0, 3))
		pool = list(range(w)) if left else list(range(L - w, L))
	else:
		pool = list(range(L))
	return sorted(r.sample(pool, k))


def rand_batch(r, fn):
	A = r.choice([4, 4, 4, 5, AMAX])
	al = gen.LETTERS[:A]
	L = r.randint(4, 14)
	B = r.choice([1, 2, 3, 3, 4, 4])
	seqs = [gen.rand_seq(r, L, al) for _ in range(B)]
	return A, al, L, B, seqs


def rand_valid_rows(r, fn, A, L, B, seqs, left):
	rows = []
	mode = r.random()
	for b in range(B):
		k = r.choice([0, 1, 1, 2, 2, 3, 3])
		if mode < 0.15:
			k = 0 if b != B - 1 else max(1, k)   # all but one without variants
		S = rand_positions(r, L, k, left if r.random() < 0.7 else not left,
			edge_bias=r.random() < 0.5)
		for p in S:
			if fn == "del":
				rows.append([b, p])
			else:
				rows.append([b, p, r.randrange(A)])
	return rows


def run_rand(unit, rec):
	fn = unit["fn"]
	r = gen.pyrng(ID, unit["seed"], fn, unit["k"])
	cls = fn + "-rand"
	for it in range(unit["n"]):
		A, al, L, B, seqs = rand_batch(r, fn)
		left = r.random() < 0.5
		rows = rand_valid_rows(r, fn, A, L, B, seqs, left)
		if fn == "sub" and rows and r.random() < 0.3:
			rows.append(list(r.choice(rows)))
		r.shuffle(rows)
		xd = r.choice(["int8", "int8", "float32", "float64"])
		for via in ("capture", "predict"):
			run_case(cls, {"fn": fn, "A": A, "seqs": seqs, "variants": rows,
				"left": left, "via": via, "xdtype": xd}, rec)


def run_invalid(unit, rec):
	"""one row that cannot be honoured, among valid rows of other examples."""
	fn, L = unit["fn"], unit["L"]
	r = gen.pyrng(ID, unit["seed"], "invalid", fn, L)
	cls = "invalid-" + fn
	c = 0
	for B in (1, 2, 3):
		for A in (4, AMAX):
			al = gen.LETTERS[:A]
			bad = []
			for p in (-1, -2, -L, -L - 1, -L + 1):
				bad.append(("neg-pos", None, p, None))
			for p in ((L, L + 1, L + 7) if fn != "ins" else (L + 1, L + 7)):
				bad.append(("pos-oob", None, p, None))
			if fn != "del":
				for ch in (A, A + 3):
					bad.append(("char-oob", None, None, ch))
				for ch in (-1, -A, -A - 1):
					bad.append(("neg-char", None, None, ch))
			for e in (B, B + 2):
				bad.append(("example-oob", e, None, None))
			for e in (-1, -B, -B - 1):
				bad.append(("neg-example", e, None, None))
			if fn == "sub":
				for _ in range(4):
					bad.append(("conflict", None, None, None))
			for (kind, e, p, ch) in bad:
				for left in ((False, True) if fn != "sub" else (False,)):
					for be in range(B):
						c += 1
						seqs = [gen.rand_seq(r, L, al) for _ in range(B)]
						if A == AMAX and c % 2:
							seqs = distinct_seqs(B, L)
						# valid rows for the other examples (sometimes none)
						rows = [x for x in rand_valid_rows(r, fn, A, L, B, seqs,
							left) if x[0] != be]
						# valid rows of the afflicted example, other positions
						pp = r.randrange(L) if p is None else p
						own = [q for q in range(L) if q != pp % L]
						for q in r.sample(own, r.choice([0, 0, 1, 2])):
							rows.append([be, q] + ([r.randrange(A)] if fn != "del"
								else []))
						row = [be if e is None else e, pp]
						if fn != "del":
							row.append(r.randrange(A) if ch is None else ch)
						if kind == "conflict":
							c1 = r.randrange(A)
							c2 = (c1 + 1 + r.randrange(A - 1)) % A
							row = [be, pp, c1]
							rows.append([be, pp, c2])
							if c % 3 == 0:
								rows.append([be, pp, c1])
						rows.insert(r.randint(0, len(rows)), row)
						if kind == "conflict" and c % 2:
							r.shuffle(rows)
						run_case(cls, {"fn": fn, "A": A, "seqs": seqs,
							"variants": rows, "left": left,
							"via": "predict" if c % 3 == 0 else "capture",
							"expect": kind}, rec)


def run_maybe(unit, rec):
	"""lists the statement does not clearly cover: may be refused; when a
	result is returned it must be the string-level edit."""
	fn, L = unit["fn"], unit["L"]
	r = gen.pyrng(ID, unit["seed"], "maybe", fn, L)
	if fn == "sub":
		return
	for B in (1, 2, 3):
		for A in (4, AMAX):
			al = gen.LETTERS[:A]
			for left in (False, True):
				for rep in range(6):
					seqs = [gen.rand_seq(r, L, al) for _ in range(B)]
					rows = rand_valid_rows(r, fn, A, L, B, seqs, left)
					be = r.randrange(B)
					if fn == "del":
						cls = "del-repeated-rows"
						own = [x for x in rows if x[0] == be]
						if not own:
							own = [[be, r.choice([0, L - 1, r.randrange(L)])]]
							rows.append(own[0])
						rows.insert(r.randint(0, len(rows)),
							list(r.choice(own)))
						run_case(cls, {"fn": fn, "A": A, "seqs": seqs,
							"variants": rows, "left": left,
							"via": "capture" if rep % 2 else "predict"}, rec)
						continue
					# insertion at coordinate L (append)
					rows_L = [x for x in rows if not (x[0] == be and
						len([y for y in rows if y[0] == be]) >= 3)]
					rows_L.insert(r.randint(0, len(rows_L)),
						[be, L, r.randrange(A)])
					run_case("ins-at-L", {"fn": fn, "A": A, "seqs": seqs,
						"variants": rows_L, "left": left,
						"via": "capture" if rep % 2 else "predict"}, rec)
					# two / three insertions at one coordinate
					p = r.choice([0, L - 1, r.randrange(L)])
					rows_S = [x for x in rows if x[0] != be]
					for _ in range(r.choice([2, 2, 3])):
						rows_S.insert(r.randint(0, len(rows_S)),
							[be, p, r.randrange(A)])
					run_case("ins-same-position", {"fn": fn, "A": A,
						"seqs": seqs, "variants": rows_S, "left": left,
						"via": "capture" if rep % 2 else "predict"}, rec)
