"""Seeded generators and harness-owned encoders/decoders.

Nothing here calls tangermeme: oracles must not share code with the
implementation they judge.
"""

import hashlib
import itertools
import random

import numpy
import torch

DNA = "ACGT"
LETTERS = "ACGTEFHIKLMPQRSVWY"


def seed_of(*tags):
	h = hashlib.blake2b(("|".join(str(t) for t in tags)).encode(),
		digest_size=8).digest()
	return int.from_bytes(h, "little")


def pyrng(*tags):
	return random.Random(seed_of(*tags))


def nprng(*tags):
	return numpy.random.default_rng(seed_of(*tags))


def rand_seq(r, L, alphabet=DNA):
	return "".join(r.choice(alphabet) for _ in range(L))


def all_seqs(L, alphabet=DNA):
	for t in itertools.product(alphabet, repeat=L):
		yield "".join(t)


class NotOneHot(Exception):
	pass


def ohe(strs, alphabet=DNA, dtype=torch.int8, ignore="N"):
	"""Own encoder: list of equal-length strings -> (B, A, L) tensor."""
	if isinstance(strs, str):
		strs = [strs]
	B, A, L = len(strs), len(alphabet), len(strs[0])
	a = numpy.zeros((B, A, L), dtype=numpy.int8)
	for b, s in enumerate(strs):
		assert len(s) == L
		for i, ch in enumerate(s):
			if ch in ignore:
				continue
			a[b, alphabet.index(ch), i] = 1
	return torch.from_numpy(a).type(dtype)


def ohe1(s, alphabet=DNA, dtype=torch.int8, ignore="N"):
	return ohe([s], alphabet, dtype, ignore)[0]


def decode(t, alphabet=DNA, allow_zero=False):
	"""Own decoder with validation: (B, A, L) or (A, L) tensor -> strings.
	Raises NotOneHot when a column is not a unit vector (or, with allow_zero,
	all-zero -> 'N')."""
	a = t.detach().cpu().numpy() if isinstance(t, torch.Tensor) else numpy.asarray(t)
	single = a.ndim == 2
	if single:
		a = a[None]
	if a.ndim != 3 or a.shape[1] != len(alphabet):
		raise NotOneHot("shape %s for alphabet of %d" % (a.shape, len(alphabet)))
	out = []
	for b in range(a.shape[0]):
		chars = []
		for i in range(a.shape[2]):
			col = a[b, :, i]
			nz = numpy.nonzero(col)[0]
			if len(nz) == 1 and col[nz[0]] == 1:
				chars.append(alphabet[nz[0]])
			elif len(nz) == 0 and allow_zero:
				chars.append("N")
			else:
				raise NotOneHot("example %d position %d column %s" % (b, i,
					col.tolist()))
		out.append("".join(chars))
	return out[0] if single else out


def tbytes(t):
	"""Byte snapshot of a tensor (content, dtype and shape)."""
	if t is None:
		return None
	if isinstance(t, torch.Tensor):
		c = t.detach().cpu().contiguous()
		return (str(c.dtype), tuple(c.shape), c.numpy().tobytes()
			if c.dtype != torch.bfloat16 else c.float().numpy().tobytes())
	if isinstance(t, numpy.ndarray):
		return (str(t.dtype), t.shape, t.tobytes())
	return repr(t)


class Immutable:
	"""Immutability monitor: byte snapshots of caller-owned tensors before a
	call, compared after return *or* raise."""

	def __init__(self, **tensors):
		self.tensors = tensors
		self.before = {k: tbytes(v) for k, v in tensors.items()}

	def changed(self):
		return [k for k, v in self.tensors.items()
			if tbytes(v) != self.before[k]]


def call(fn, *a, **k):
	"""-> ('ok', value) or ('raise', exception).  BaseException subclasses
	other than Exception propagate."""
	try:
		return "ok", fn(*a, **k)
	except Exception as e:
		return "raise", e
