"""C07  A model is left behaviourally unchanged by every call, even one that fails.

Fault enumeration.  Every tangermeme function that takes a model is run on a
harness-built model that contains event failpoints (a forward failpoint layer,
a backward failpoint autograd function), with a failing reference generator,
with invalid inputs, and - for deep_lift_shap and the other entry points -
with source-free line failpoints (sys.monitoring) at every executed
(line, hit) point.  After every return *or* raise a model audit compares hook
dictionaries of every sub-module, bytes of parameters/buffers and the forward
output + ordinary gradient on a fixed odd-sized probe batch with the snapshot
taken before the call.  Call histories on one shared model are compared with
the same calls on fresh copies.
"""

import copy
import itertools

import torch

from .. import gen
from ..monitors import (CTL, FailForward, FailBackward, ModelAudit,
	LineFailpoints, cleanup_lines, unraisable_lines, with_lines, Injected,
	EXC_TYPES)

ID = "C07"
LEVEL = "fault_enumeration"
RULE = ("one case = one (entry point, fault) execution followed by a model "
	"audit, or one call history on a shared model.  Faults enumerated "
	"exhaustively for each entry point: the k-th forward call, k-th backward "
	"pass, k-th reference-generator call, k-th backward-hook call for every "
	"k up to the number observed in a counting run, x exception types "
	"(Exception subclass, KeyboardInterrupt, ...); invalid inputs (N in a "
	"sequence, integer X, out-of-range target, short args, wrong reference "
	"shape); every executed (line, hit) point of the entry point's own code "
	"object (lines inside except/finally bodies excluded).  Histories: all "
	"sequences up to the tier's length over the operation alphabet + random "
	"longer ones.  Non-trivial = the fault actually fired (or the history "
	"contains a failing call followed by another call); distinct = distinct "
	"(entry point, fault point, exception type) / distinct histories.")
ASSUMPTIONS = [
	"scratch attributes left on modules (input, output) are not part of the "
	"statement and never alarm",
	"the model may have been switched to eval mode; the audit compares "
	"behaviour in eval mode",
	"device='cpu'",
]
REQUIRED = {"faults_fired": 100, "line_points_injected": 50,
	"history_steps": 100, "audits": 300}
LEVEL_TEXT = ("Fault enumeration: for each entry point every injection point "
	"observed in a counting run (k-th forward / backward / reference call / "
	"backward hook, every executed source line and hit count) is re-run with "
	"an exception raised exactly there, and a model audit (hooks, state "
	"bytes, probe output and gradient) decides after each return or raise; "
	"plus exhaustive short call histories on a shared model.")
TECHNIQUE = ("runtime monitoring with fault injection: event failpoints + "
	"sys.monitoring line failpoints, model-audit oracle after every return "
	"or raise, shared-model call histories vs fresh copies")
TIMEOUT = {"quick": 900, "thorough": 7200}

A, L = 4, 14


class Net(torch.nn.Module):
	def __init__(self, kind, seed):
		super().__init__()
		if kind == "dls":
			layers = [torch.nn.Conv1d(A, 3, 3), torch.nn.ReLU(),
				FailForward(), torch.nn.MaxPool1d(2), torch.nn.Conv1d(3, 2, 2),
				torch.nn.Tanh(), FailBackward(), torch.nn.Flatten(),
				torch.nn.Linear(10, 2)]
		else:
			layers = [torch.nn.Conv1d(A, 3, 3), torch.nn.BatchNorm1d(3),
				torch.nn.ReLU(), FailForward(), torch.nn.Dropout(0.3),
				FailBackward(), torch.nn.Flatten(), torch.nn.Linear(36, 2)]
		self.body = torch.nn.Sequential(*layers).to(torch.float64)
		g = torch.Generator().manual_seed(seed)
		with torch.no_grad():
			for p in self.parameters():
				p.copy_(torch.randn(p.shape, generator=g, dtype=p.dtype))
			for m in self.modules():
				if isinstance(m, torch.nn.BatchNorm1d):
					m.running_mean.copy_(torch.randn(3, generator=g,
						dtype=torch.float64))
					m.running_var.copy_(torch.rand(3, generator=g,
						dtype=torch.float64) + 0.5)

	def forward(self, X, a=None):
		y = self.body(X)
		if a is not None:
			y = y + a
		return y


_INP = {}


def inputs():
	if not _INP:
		r = gen.pyrng("C07inputs")
		seqs = [gen.rand_seq(r, L) for _ in range(3)]
		_INP["X"] = gen.ohe(seqs, dtype=torch.float64)
		bad = list(seqs)
		bad[1] = bad[1][:5] + "N" + bad[1][6:]
		_INP["X_N"] = gen.ohe(bad, dtype=torch.float64)
		_INP["X_int"] = gen.ohe(seqs, dtype=torch.int8)
		_INP["args"] = (torch.arange(6, dtype=torch.float64).reshape(3, 2)
			/ 3,)
		_INP["probe"] = gen.ohe([gen.rand_seq(r, L) for _ in range(3)],
			dtype=torch.float64)
		_INP["refs"] = gen.ohe([gen.rand_seq(r, L) for _ in range(6)],
			dtype=torch.float64).reshape(3, 2, A, L)
	return _INP


def ref_gen(X, n=1, random_state=None, **kw):
	from tangermeme.ersatz import shuffle
	CTL.hit("ref")
	return shuffle(X, n=n, random_state=random_state)


DLS_KW = dict(n_shuffles=2, batch_size=4, random_state=0, device="cpu")


def build_ops():
	"""name -> (callable(model) -> result, entry function for line
	failpoints)."""
	from tangermeme.predict import predict
	from tangermeme.deep_lift_shap import deep_lift_shap
	from tangermeme.ism import saturation_mutagenesis
	from tangermeme.marginalize import marginalize, marginalize_annotations
	from tangermeme.ablate import ablate, ablate_annotations
	from tangermeme.space import space
	from tangermeme import variant_effect as ve
	from tangermeme.product import apply_pairwise, apply_product
	from tangermeme.design import greedy_substitution
	I = inputs()
	X, args = I["X"], I["args"]
	subs = torch.tensor([[0, 3, 1], [2, 7, 0]])
	dels = torch.tensor([[0, 5], [1, 6], [2, 7]])
	ins = torch.tensor([[0, 5, 1], [1, 6, 2], [2, 7, 3]])
	rk = dict(references=ref_gen)
	ops = {
		"predict": (lambda m: predict(m, X, batch_size=2, device="cpu"),
			predict),
		"predict_args": (lambda m: predict(m, X, args=args, batch_size=2,
			device="cpu"), predict),
		"predict_bf16": (lambda m: predict(m, X.to(torch.bfloat16),
			batch_size=2, device="cpu"), predict),
		"ism_f16": (lambda m: saturation_mutagenesis(m, X.to(torch.float16),
			batch_size=7, device="cpu"), saturation_mutagenesis),
		"dls": (lambda m: deep_lift_shap(m, X, **DLS_KW, **rk),
			deep_lift_shap),
		"dls_dinuc_args_raw": (lambda m: deep_lift_shap(m, X, args=args,
			raw_outputs=True, return_references=True, n_shuffles=3,
			batch_size=2, random_state=1, device="cpu", target=1),
			deep_lift_shap),
		"dls_tensor_refs": (lambda m: deep_lift_shap(m, X,
			references=I["refs"], batch_size=3, hypothetical=True,
			device="cpu"), deep_lift_shap),
		"ism": (lambda m: saturation_mutagenesis(m, X, batch_size=7,
			device="cpu"), saturation_mutagenesis),
		"marginalize": (lambda m: marginalize(m, X, "ACG", device="cpu"),
			marginalize),
		"marginalize_dls": (lambda m: marginalize(m, X, "ACG",
			func=deep_lift_shap, **DLS_KW, **rk), marginalize),
		"ablate": (lambda m: ablate(m, X, 2, 8, n=2, random_state=0,
			device="cpu"), ablate),
		"ablate_dls": (lambda m: ablate(m, X, 2, 8, n=2, random_state=0,
			func=deep_lift_shap, n_shuffles=2, batch_size=4, device="cpu",
			**rk), ablate),
		"marginalize_annotations_dls": (lambda m: marginalize_annotations(m,
			X, X, torch.tensor([[0, 2, 6], [2, 5, 9]]),
			func=deep_lift_shap, **DLS_KW, **rk), marginalize_annotations),
		"ablate_annotations_dls": (lambda m: ablate_annotations(m, X,
			torch.tensor([[1, 2, 8], [0, 4, 9]]), n=2, random_state=0,
			func=deep_lift_shap, n_shuffles=2, batch_size=4, device="cpu",
			**rk), ablate_annotations),
		"space": (lambda m: space(m, X, ["AC", "GT"], [[1], [2]],
			device="cpu"), space),
		"space_dls": (lambda m: space(m, X, ["AC", "GT"], [[1], [2]],
			func=deep_lift_shap, **DLS_KW, **rk), space),
		"substitution": (lambda m: ve.substitution_effect(m, X, subs,
			device="cpu"), ve.substitution_effect),
		"substitution_dls": (lambda m: ve.substitution_effect(m, X, subs,
			func=deep_lift_shap, **DLS_KW, **rk), ve.substitution_effect),
		"deletion_dls": (lambda m: ve.deletion_effect(m, X, dels,
			func=deep_lift_shap, **DLS_KW, **rk), ve.deletion_effect),
		"insertion": (lambda m: ve.insertion_effect(m, X, ins,
			device="cpu"), ve.insertion_effect),
		"pairwise": (lambda m: apply_pairwise(predict, m, X, args=args,
			batch_size=4, device="cpu"), apply_pairwise),
		"product_dls": (lambda m: apply_product(deep_lift_shap, m, X,
			args=args, batch_size=4, device="cpu", additional_func_kwargs=dict(
			n_shuffles=2, random_state=0, **rk)), apply_product),
		"greedy": (lambda m: greedy_substitution(m, X[:1], ["ACG", "TT"],
			torch.zeros(1, 2, dtype=torch.float64), max_iter=2,
			device="cpu"), greedy_substitution),
	}
	return ops


def build_invalid():
	from tangermeme.deep_lift_shap import deep_lift_shap
	from tangermeme.marginalize import marginalize
	from tangermeme.ablate import ablate
	I = inputs()
	X = I["X"]
	return {
		"N_in_sequence": lambda m: deep_lift_shap(m, I["X_N"], n_shuffles=2,
			batch_size=4, random_state=0, device="cpu"),
		"N_in_sequence_bs1": lambda m: deep_lift_shap(m, I["X_N"],
			n_shuffles=2, batch_size=1, random_state=0, device="cpu"),
		"integer_X": lambda m: deep_lift_shap(m, I["X_int"], **DLS_KW),
		"target_out_of_range": lambda m: deep_lift_shap(m, X, target=7,
			**DLS_KW),
		"args_too_short": lambda m: deep_lift_shap(m, X, args=(
			I["args"][0][:2],), **DLS_KW),
		"args_wrong_width": lambda m: deep_lift_shap(m, X, args=(
			torch.zeros(3, 5, dtype=torch.float64),), **DLS_KW),
		"reference_tensor_wrong_shape": lambda m: deep_lift_shap(m, X,
			references=I["refs"][:, :, :, :-1], device="cpu"),
		"reference_tensor_too_few": lambda m: deep_lift_shap(m, X,
			references=I["refs"][:2], device="cpu"),
		"references_not_callable": lambda m: deep_lift_shap(m, X,
			references="shuffle", **{k: v for k, v in DLS_KW.items()}),
		"marginalize_dls_N": lambda m: marginalize(m, I["X_N"], "ACG",
			func=deep_lift_shap, **DLS_KW),
		"ablate_dls_bad_target": lambda m: ablate(m, X, 2, 8, n=2,
			random_state=0, func=deep_lift_shap, target=9, n_shuffles=2,
			device="cpu"),
	}


def same(a, b):
	if isinstance(a, torch.Tensor):
		return isinstance(b, torch.Tensor) and a.shape == b.shape and \
			torch.equal(a, b)
	if isinstance(a, (list, tuple)):
		return isinstance(b, (list, tuple)) and len(a) == len(b) and all(
			same(x, y) for x, y in zip(a, b))
	return a == b


def attempt(fn, model):
	"""-> ('returned', value) | ('raised', exception type name, message)"""
	try:
		return ("returned", fn(model))
	except BaseException as e:
		return ("raised", type(e).__name__, str(e)[:200])


def judge(rec, cls, params, audit, outcome, fired):
	rec.count("audits")
	diffs = audit.diff()
	if fired:
		rec.count("faults_fired")
	if not diffs:
		rec.held(cls, params, nontrivial=fired or outcome[0] == "raised")
		return True
	kinds = sorted({k for k, _ in diffs})
	after = "raise" if outcome[0] == "raised" else "return"
	if "hooks" in kinds:
		mech = "C07/hooks-left-after-" + after
	elif "state" in kinds:
		mech = "C07/state-changed-after-" + after
	else:
		mech = "C07/behaviour-changed-after-" + after
	rec.violation(cls, params, {"what": "model differs after the call",
		"call_outcome": list(outcome[:1]) + [str(x)[:200] for x in
		outcome[1:]] if outcome[0] == "raised" else ["returned"],
		"differences": [d for _, d in diffs][:8]}, mech=mech)
	return False


class Alias(torch.nn.Module):
	"""A wrapper under which the body (and so every activation / pooling
	module) is reachable through two parents, as in models that keep a handle
	on their trunk: Module.apply() visits such modules twice."""

	def __init__(self, seed):
		super().__init__()
		self.net = Net("dls", seed)
		self.trunk = self.net.body
		self.first_act = self.net.body[1]
		# the caller's own forward hook (an activation recorder): it must
		# still be there after every call, and must not disturb anything
		self.recorded = []
		self.net.body[5].register_forward_hook(
			lambda mod, i, o: self.recorded.append(1) and None)

	def forward(self, X, a=None):
		return self.net(X, a)


def fresh(kind, seed=0):
	if kind == "alias":
		return Alias(seed).eval()
	if kind == "f32":
		# single-precision model (reduced-precision inputs are up-cast to it)
		return Net("dls", seed).float().eval()
	if kind == "bn-mixed":
		# root in eval mode, the batch-norm layer left in train mode (as
		# after model.eval(); model.norm.train()): a call that forgets to
		# switch sub-modules to eval updates the running statistics
		m = Net("bn", seed).eval()
		m.body[1].train()
		return m
	if kind == "grads":
		# a model in the middle of gradient accumulation: its parameters
		# carry .grad tensors that the next optimiser step will use
		m = Net("dls", seed).eval()
		g = torch.Generator().manual_seed(seed + 11)
		x = torch.randn(3, 4, L, generator=g, dtype=torch.float64)
		out = m(x)
		(out[0] if isinstance(out, (tuple, list)) else out).sum().backward()
		return m
	if kind == "bn-train":
		# handed over in training mode altogether (straight out of a
		# training loop): every forward the call makes must still leave the
		# running statistics alone
		return Net("bn", seed).train()
	return Net(kind, seed).eval()


def run_case(cls, params, rec):
	torch.set_grad_enabled(True)
	t = params["type"]
	if t == "event":
		return case_event(cls, params, rec)
	if t == "invalid":
		return case_invalid(cls, params, rec)
	if t == "line":
		return case_line(cls, params, rec)
	if t == "history":
		return case_history(cls, params, rec)
	raise AssertionError(t)


def patched_bhook():
	"""Context manager: count/raise at the k-th backward-hook invocation by
	wrapping the module-level _b_hook of tangermeme.deep_lift_shap (looked up
	by _register_hooks at registration time)."""
	import contextlib
	import tangermeme.deep_lift_shap as D

	@contextlib.contextmanager
	def cm():
		if not hasattr(D, "_b_hook"):
			yield False
			return
		orig = D._b_hook

		def wrapper(module, grad_input, grad_output):
			CTL.hit("bhook")
			return orig(module, grad_input, grad_output)
		D._b_hook = wrapper
		try:
			yield True
		finally:
			D._b_hook = orig
	return cm()


def count_events(op, kind):
	model = fresh(kind)
	CTL.reset()
	with patched_bhook():
		out = attempt(op, model)
	counts = dict(CTL.counts)
	CTL.reset()
	return counts, out


def case_event(cls, params, rec):
	"""params: op, model (dls|bn), kind (forward|backward|ref|bhook), k, exc"""
	ops = build_ops()
	op = ops[params["op"]][0]
	model = fresh(params["model"])
	audit = ModelAudit(model, inputs()["probe"])
	with patched_bhook() as ok:
		if params["kind"] == "bhook" and not ok:
			rec.inconclusive(cls, params, "_b_hook not patchable")
			return
		CTL.arm(params["kind"], params["k"], params["exc"])
		out = attempt(op, model)
		fired = CTL.fired
		CTL.reset()
	if not fired:
		rec.count("injection_not_reached")
	judge(rec, cls, params, audit, out, fired)


def case_invalid(cls, params, rec):
	inv = build_invalid()
	model = fresh(params["model"])
	audit = ModelAudit(model, inputs()["probe"])
	CTL.reset()
	out = attempt(inv[params["name"]], model)
	if out[0] == "returned":
		rec.count("invalid_input_accepted:" + params["name"])
	judge(rec, cls, params, audit, out, out[0] == "raised")


def case_line(cls, params, rec):
	"""params: op, model, point [line, hit] relative to the function's first
	line, exc.  Absolute line = co_firstlineno + rel."""
	ops = build_ops()
	op, entry = ops[params["op"]]
	first = entry.__code__.co_firstlineno
	point = (first + params["point"][0], params["point"][1])
	model = fresh(params["model"])
	audit = ModelAudit(model, inputs()["probe"])
	CTL.reset()
	lf = LineFailpoints(entry)
	with lf:
		try:
			lf.inject(lambda: op(model), point, EXC_TYPES[params["exc"]])
			out = ("returned", None)
		except BaseException as e:
			out = ("raised", type(e).__name__, str(e)[:200])
	if lf.fired:
		rec.count("line_points_injected")
	else:
		rec.count("injection_not_reached")
	judge(rec, cls, params, audit, out, lf.fired)


def enumerate_line_points(opname, modelkind):
	ops = build_ops()
	op, entry = ops[opname]
	first = entry.__code__.co_firstlineno
	skip = cleanup_lines(entry) | unraisable_lines(entry) | with_lines(entry)
	model = fresh(modelkind)
	CTL.reset()
	lf = LineFailpoints(entry)
	with lf:
		pts = lf.count(lambda: op(model))
	return [[l - first, h] for (l, h) in pts if l not in skip], len(pts)


HIST_OPS = ["predict", "dls", "FAIL_N", "FAIL_fwd2_kbd", "ism",
	"marginalize_dls", "ablate_dls", "substitution_dls", "greedy",
	"FAIL_bwd1", "product_dls", "dls_dinuc_args_raw"]


def hist_callable(name):
	ops = build_ops()
	inv = build_invalid()
	if name == "FAIL_N":
		return inv["N_in_sequence"], None
	if name == "FAIL_fwd2_kbd":
		return ops["dls"][0], ("forward", 2, "KeyboardInterrupt")
	if name == "FAIL_bwd1":
		return ops["marginalize_dls"][0], ("backward", 1, "Injected")
	return ops[name][0], None


_EXPECT = {}


def expected(name, kind):
	key = (name, kind)
	if key not in _EXPECT:
		fn, arm = hist_callable(name)
		m = fresh(kind)
		CTL.reset()
		if arm:
			CTL.arm(*arm)
		out = attempt(fn, m)
		CTL.reset()
		_EXPECT[key] = out
	return _EXPECT[key]


def case_history(cls, params, rec):
	seq, kind = params["ops"], params["model"]
	model = fresh(kind)
	probe = inputs()["probe"]
	failing_then_more = False
	seen_fail = False
	for step, name in enumerate(seq):
		fn, arm = hist_callable(name)
		exp = expected(name, kind)
		audit = ModelAudit(model, probe)
		CTL.reset()
		if arm:
			CTL.arm(*arm)
		out = attempt(fn, model)
		CTL.reset()
		rec.count("history_steps")
		rec.count("audits")
		if seen_fail:
			failing_then_more = True
		if out[0] == "raised":
			seen_fail = True
		diffs = audit.diff()
		if diffs:
			rec.violation(cls, params, {"what": "model differs after step %d "
				"(%s) of the history" % (step, name), "call_outcome":
				[str(x)[:200] for x in out[:3]] if out[0] == "raised"
				else ["returned"], "differences": [d for _, d in diffs][:6]},
				mech="C07/hooks-left-after-" + ("raise" if out[0] == "raised"
				else "return") if any(k == "hooks" for k, _ in diffs)
				else "C07/history-model-changed")
			return
		ok = (out[0] == exp[0]) and (same(out[1], exp[1]) if out[0] ==
			"returned" else out[1] == exp[1])
		if not ok:
			rec.violation(cls, params, {"what": "step %d (%s) on the shared "
				"model gave a different result than on a fresh copy" % (step,
				name), "shared": [str(x)[:200] for x in out[:3]] if out[0] ==
				"raised" else "returned value differs",
				"fresh": [str(x)[:200] for x in exp[:3]] if exp[0] ==
				"raised" else "returned"}, mech="C07/history-diverged")
			return
	rec.held(cls, params, nontrivial=failing_then_more)


# ---------------------------------------------------------------------------

EVENT_OPS = ["predict_bf16", "ism_f16", "marginalize_annotations_dls",
	"ablate_annotations_dls",
	"dls", "dls_dinuc_args_raw", "dls_tensor_refs", "marginalize_dls",
	"ablate_dls", "space_dls", "substitution_dls", "deletion_dls",
	"product_dls", "predict", "predict_args", "ism", "marginalize", "ablate",
	"space", "substitution", "insertion", "pairwise", "greedy"]
LINE_OPS_QUICK = [("dls", "dls"), ("dls_dinuc_args_raw", "alias")]
LINE_OPS_THOROUGH = [("dls", "dls"), ("dls_dinuc_args_raw", "dls"),
	("dls_tensor_refs", "bn"), ("predict_args", "bn"), ("ism", "dls"),
	("dls", "alias"),
	("marginalize_dls", "dls"), ("ablate_dls", "dls"), ("space_dls", "dls"),
	("substitution_dls", "dls"), ("deletion_dls", "dls"),
	("product_dls", "dls"), ("pairwise", "dls"), ("greedy", "dls"),
	("marginalize_annotations_dls", "alias"),
	("ablate_annotations_dls", "dls")]


def plan(tier, seed):
	units = []
	quick = tier == "quick"
	for op in EVENT_OPS:
		kinds = ("dls",) if quick else ("dls", "bn", "alias")
		if quick and op in ("dls", "marginalize_dls", "predict_args"):
			kinds = ("dls", "alias", "bn")
		if op in ("predict", "predict_args", "ism", "marginalize", "greedy",
			"pairwise", "dls_tensor_refs"):
			kinds = tuple(kinds) + ("bn-mixed",)
		if op in ("dls", "dls_tensor_refs", "dls_dinuc_args_raw", "predict",
			"ism", "marginalize_dls", "product_dls"):
			kinds = tuple(kinds) + ("bn-train", "grads")
		if op in ("predict_bf16", "ism_f16"):
			kinds = ("f32",)
		for kind in kinds:
			units.append({"cls": "events", "op": op, "model": kind,
				"tier": tier, "weight": 6})
	units.append({"cls": "invalid", "tier": tier, "weight": 2})
	for op, kind in (LINE_OPS_QUICK if quick else LINE_OPS_THOROUGH):
		nparts = 4 if quick else 6
		for part in range(nparts):
			units.append({"cls": "lines", "op": op, "model": kind,
				"part": part, "nparts": nparts, "tier": tier, "weight": 12})
	# histories
	if quick:
		hs = [list(h) for n in (1, 2) for h in itertools.product(HIST_OPS,
			repeat=n)]
		r = gen.pyrng("C07hist", seed)
		hs += [[r.choice(HIST_OPS) for _ in range(4)] for _ in range(60)]
	else:
		hs = [list(h) for n in (1, 2, 3) for h in itertools.product(HIST_OPS,
			repeat=n)]
		# all histories of length 4 over a core alphabet (the failing calls
		# and one representative of each entry-point family)
		core = ["predict", "dls", "FAIL_N", "FAIL_fwd2_kbd", "ism",
			"marginalize_dls", "FAIL_bwd1", "greedy"]
		hs += [list(h) for h in itertools.product(core, repeat=4)]
		r = gen.pyrng("C07hist", seed)
		hs += [[r.choice(HIST_OPS) for _ in range(r.choice([4, 5, 6]))]
			for _ in range(3000)]
	per = 12 if quick else 40
	for i in range(0, len(hs), per):
		units.append({"cls": "histories", "hs": hs[i:i + per],
			"model": ("bn", "dls", "alias", "bn-mixed", "bn-train", "grads")[
				(i // per) % 6],
			"weight": per / 3})
	return units


def run_unit(unit, rec):
	cls = unit["cls"]
	if cls == "events":
		ops = build_ops()
		counts, out = count_events(ops[unit["op"]][0], unit["model"])
		if out[0] == "raised":
			rec.note("counting run of %s raised %s" % (unit["op"], out[1:]))
			rec.count("counting_run_raised")
		rec.setadd("event_counts", "%s/%s: %s" % (unit["op"], unit["model"],
			sorted(counts.items())))
		excs = ["Injected", "KeyboardInterrupt"]
		# the call without any fault: the audit after a normal return
		run_case("event-none", {"type": "event", "op": unit["op"],
			"model": unit["model"], "kind": "forward", "k": 10 ** 6,
			"exc": "Injected"}, rec)
		for kind, K in sorted(counts.items()):
			for k in range(1, K + 1):
				for exc in excs + (["RuntimeError", "MemoryError"] if k in (1,
					K) and unit["tier"] == "thorough" else []):
					run_case("event-" + kind, {"type": "event",
						"op": unit["op"], "model": unit["model"], "kind": kind,
						"k": k, "exc": exc}, rec)
		rec.mark_exhaustive("event-forward")
		rec.mark_exhaustive("event-backward")
		rec.mark_exhaustive("event-ref")
		rec.mark_exhaustive("event-bhook")
	elif cls == "invalid":
		for name in build_invalid():
			for kind in ("dls", "bn", "alias"):
				run_case("invalid-input", {"type": "invalid", "name": name,
					"model": kind}, rec)
	elif cls == "lines":
		pts, total = enumerate_line_points(unit["op"], unit["model"])
		rec.setadd("line_points", "%s: %d points (%d executed, cleanup "
			"lines excluded)" % (unit["op"], len(pts), total))
		excs = ["Injected"] if unit["tier"] == "quick" else ["Injected",
			"KeyboardInterrupt"]
		for i, pt in enumerate(pts):
			if i % unit["nparts"] != unit["part"]:
				continue
			for exc in excs:
				run_case("line-failpoint", {"type": "line", "op": unit["op"],
					"model": unit["model"], "point": pt, "exc": exc}, rec)
		rec.mark_exhaustive("line-failpoint")
	elif cls == "histories":
		for h in unit["hs"]:
			run_case("history", {"type": "history", "ops": h,
				"model": unit["model"]}, rec)
