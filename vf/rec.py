"""Recorder: what a monitor observed, aggregated inside one worker process.

Property modules never print verdicts themselves; they report every executed
case to a Recorder.  The orchestrator (core.py) merges the recorders of all
workers and decides the exit status and the evidence from those records only.
"""

import hashlib
import json

OUTCOMES = ("held", "violation", "refusal", "inconclusive")
MAX_VIOLATIONS = 40       # full records kept per worker
MAX_SAMPLES_PER_CLASS = 2


def canon(obj):
	return json.dumps(obj, sort_keys=True, separators=(",", ":"), default=str)


def short_hash(text):
	return hashlib.blake2b(text.encode(), digest_size=8).hexdigest()


class Recorder:
	def __init__(self, classify=None):
		self.classes = {}          # cls -> {outcome: n, 'n': n, 'nontrivial': n}
		self.nontrivial = set()    # hashes of distinct non-trivial cases
		self.samples = {}          # cls -> [case, ...]
		self.violations = []       # full records
		self.n_violations = 0
		self.viol_by_mech = {}     # mech -> count (all, not only the stored ones)
		self.counters = {}
		self.sets = {}
		self.maxs = {}
		self.mins = {}
		self.exhaustive = {}       # cls -> bool
		self.notes = []
		self._classify = classify

	# ---- cases -----------------------------------------------------------
	def _cls(self, cls):
		c = self.classes.get(cls)
		if c is None:
			c = {"n": 0, "held": 0, "violation": 0, "refusal": 0,
				"inconclusive": 0, "nontrivial": 0}
			self.classes[cls] = c
		return c

	def case(self, cls, params, outcome, nontrivial=False, detail=None,
		mech=None, key=None):
		assert outcome in OUTCOMES, outcome
		c = self._cls(cls)
		c["n"] += 1
		c[outcome] += 1
		if nontrivial and outcome in ("held", "violation"):
			h = short_hash(cls + "|" + (key if key is not None else canon(params)))
			if h not in self.nontrivial:
				self.nontrivial.add(h)
				c["nontrivial"] += 1
		s = self.samples.setdefault(cls, [])
		if len(s) < MAX_SAMPLES_PER_CLASS and outcome == "held":
			s.append({"class": cls, "params": params, "outcome": outcome,
				"nontrivial": bool(nontrivial)})
		if outcome == "violation":
			self.n_violations += 1
			if mech is None and self._classify is not None:
				try:
					mech = self._classify(cls, params, detail)
				except Exception as e:  # classifier bugs must not hide the case
					mech = None
					self.notes.append("classifier error: %r" % (e,))
			m = mech or "unclassified"
			self.viol_by_mech[m] = self.viol_by_mech.get(m, 0) + 1
			# keep at least a few records of every mechanism
			kept = sum(1 for v in self.violations if v["mech"] == m)
			if kept < 5 and len(self.violations) < MAX_VIOLATIONS:
				v = {"class": cls, "params": params, "detail": detail,
					"mech": m}
				if getattr(self, "cur_env", None):
					# process-wide settings of the worker that produced it
					v["env"] = dict(self.cur_env)
				self.violations.append(v)

	def held(self, cls, params, nontrivial=False, key=None):
		self.case(cls, params, "held", nontrivial=nontrivial, key=key)

	def violation(self, cls, params, detail, mech=None, nontrivial=True):
		self.case(cls, params, "violation", nontrivial=nontrivial,
			detail=detail, mech=mech)

	def refusal(self, cls, params, detail=None):
		self.case(cls, params, "refusal", detail=detail)
		self.count("refusal:" + cls)
		if detail:
			self.setadd("refusal_reasons", cls + ": " + str(detail)[:70], cap=60)

	def inconclusive(self, cls, params, detail=None):
		self.case(cls, params, "inconclusive", detail=detail)
		if detail:
			self.count("inconclusive:" + str(detail)[:60])

	def bulk_held(self, cls, n, n_nontrivial_distinct, sample=None,
		exhaustive=None):
		"""n cases held; caller guarantees the non-trivial ones are distinct
		from every other case reported in this run (enumerated scopes)."""
		c = self._cls(cls)
		c["n"] += n
		c["held"] += n
		c["nontrivial"] += n_nontrivial_distinct
		self.counters["bulk_nontrivial"] = self.counters.get(
			"bulk_nontrivial", 0) + n_nontrivial_distinct
		if sample is not None:
			s = self.samples.setdefault(cls, [])
			if len(s) < MAX_SAMPLES_PER_CLASS:
				s.append({"class": cls, "params": sample, "outcome": "held"})
		if exhaustive is not None:
			self.exhaustive[cls] = bool(exhaustive) and self.exhaustive.get(
				cls, True)

	# ---- observations ----------------------------------------------------
	def count(self, name, k=1):
		self.counters[name] = self.counters.get(name, 0) + k

	def setadd(self, name, value, cap=2000):
		s = self.sets.setdefault(name, set())
		if len(s) < cap:
			s.add(value if isinstance(value, (str, int)) else canon(value))

	def maxv(self, name, v):
		v = float(v)
		if name not in self.maxs or v > self.maxs[name]:
			self.maxs[name] = v

	def minv(self, name, v):
		v = float(v)
		if name not in self.mins or v < self.mins[name]:
			self.mins[name] = v

	def mark_exhaustive(self, cls, flag=True):
		self.exhaustive[cls] = bool(flag) and self.exhaustive.get(cls, True)

	def note(self, text):
		if len(self.notes) < 50:
			self.notes.append(text)

	# ---- (de)serialisation ----------------------------------------------
	def dump(self):
		return {
			"classes": self.classes,
			"nontrivial": sorted(self.nontrivial),
			"samples": self.samples,
			"violations": self.violations,
			"n_violations": self.n_violations,
			"viol_by_mech": self.viol_by_mech,
			"counters": self.counters,
			"sets": {k: sorted(v, key=str) for k, v in self.sets.items()},
			"maxs": self.maxs, "mins": self.mins,
			"exhaustive": self.exhaustive,
			"notes": self.notes,
		}

	def merge(self, d):
		for cls, c in d["classes"].items():
			mine = self._cls(cls)
			for k, v in c.items():
				if k != "nontrivial":
					mine[k] = mine.get(k, 0) + v
		bulk = d["counters"].get("bulk_nontrivial", 0)
		self.nontrivial.update(d["nontrivial"])
		for cls, c in d["classes"].items():
			self.classes[cls]["nontrivial"] += c.get("nontrivial", 0)
		for cls, s in d["samples"].items():
			mine = self.samples.setdefault(cls, [])
			for x in s:
				if len(mine) < MAX_SAMPLES_PER_CLASS:
					mine.append(x)
		self.violations.extend(d["violations"])
		self.n_violations += d["n_violations"]
		for k, v in d["viol_by_mech"].items():
			self.viol_by_mech[k] = self.viol_by_mech.get(k, 0) + v
		for k, v in d["counters"].items():
			self.counters[k] = self.counters.get(k, 0) + v
		for k, v in d["sets"].items():
			self.sets.setdefault(k, set()).update(v)
		for k, v in d["maxs"].items():
			self.maxv(k, v)
		for k, v in d["mins"].items():
			self.minv(k, v)
		for k, v in d["exhaustive"].items():
			self.exhaustive[k] = v and self.exhaustive.get(k, True)
		self.notes.extend(d["notes"][:10])

	def distinct_nontrivial(self):
		return len(self.nontrivial) + self.counters.get("bulk_nontrivial", 0)
