"""C01  Edit primitives apply exactly the requested string edit and nothing else.

Monitor: every call of ersatz.substitute / insert / delete / multisubstitute /
randomize made by the workload is observed at the API boundary (return value or
exception) together with a byte-level immutability monitor on the caller's
tensors.  Oracle: the edit performed on integer index arrays (= strings) by
harness code that shares nothing with tangermeme.
"""

import itertools

import numpy
import torch

from .. import gen

ID = "C01"
LEVEL = "exploration"
RULE = ("one case = one (sequence, motif(s), position, input form) tuple; a "
	"call on a batch of B sequences is B cases.  Small scope enumerated "
	"completely: every sequence of length <= Lmax over the alphabet, every "
	"motif of length <= 3, every start in [-3, L+3] (delete: every (start, "
	"end) in [-3, L+3]^2), motif given as string / (1,A,m) / per-example "
	"(B,A,m) / wrong-batch tensor; plus seeded random long batches with "
	"boundary starts.  Non-trivial = the position is on a boundary (0, L-m, "
	"L) or outside the sequence, or motifs are per-example / wrong-batch; "
	"distinct = distinct tuples.")
ASSUMPTIONS = [
	"insert at L-m < start <= L and randomize with end == L are refused by "
	"the implementation; a refusal there is counted, not a violation "
	"(rejecting is not wrapping/clipping)",
	"delete of an empty span may either raise or return the input",
	"any Exception subclass counts as 'rejected with an error'",
]
TIMEOUT = {"quick": 900, "thorough": 5400}

DT = {"int8": torch.int8, "float32": torch.float32, "float64": torch.float64,
	"int64": torch.int64}


_PERM = {"on": False}


def alpha(A):
	"""The alphabet of size A; in 'permuted' mode the same letters in another
	order (same motif strings, same alphabet size, other encoding)."""
	a = gen.LETTERS[:A]
	return a[::-1] if _PERM["on"] else a


def idx_all(A, L):
	"""All A**L sequences as an index array (A**L, L)."""
	if L == 0:
		return numpy.zeros((1, 0), dtype=numpy.int64)
	g = numpy.indices((A,) * L).reshape(L, -1).T
	return numpy.ascontiguousarray(g)


def to_ohe(idx, A, dtype):
	a = (idx[:, None, :] == numpy.arange(A)[None, :, None]).astype(numpy.int8)
	return torch.from_numpy(a).type(dtype)


def from_ohe(t, A):
	"""-> (index array, None) or (None, reason) if not a valid one-hot."""
	a = t.detach().cpu().numpy()
	if a.ndim != 3 or a.shape[1] != A:
		return None, "shape %s" % (a.shape,)
	ok01 = ((a == 0) | (a == 1)).all()
	if not ok01:
		return None, "values other than 0/1"
	if a.shape[2] and not (a.sum(axis=1) == 1).all():
		b, p = numpy.argwhere(a.sum(axis=1) != 1)[0]
		return None, "column sum %s at example %d position %d" % (
			a[b, :, p].tolist(), b, p)
	return a.argmax(axis=1), None


def strs(idx, A):
	al = alpha(A)
	return ["".join(al[j] for j in row) for row in idx]


def seqs_of(params):
	A = params["A"]
	s = params["seqs"]
	if isinstance(s, str) and s.startswith("all:"):
		return idx_all(A, int(s[4:]))
	al = alpha(A)
	return numpy.array([[al.index(c) for c in x] for x in s],
		dtype=numpy.int64).reshape(len(s), -1)


def motif_idx(m, A):
	al = alpha(A)
	return numpy.array([al.index(c) for c in m], dtype=numpy.int64)


def build_motif(params, B):
	"""-> (motif argument for the call, per-example index array (B, m) or None
	if the batch form is invalid, tensor to watch)."""
	A = params["A"]
	form = params["form"]
	mot = params["motif"]
	mdt = DT[params.get("mdtype", "int8")]
	if form == "str":
		mi = motif_idx(mot, A)
		return mot, numpy.repeat(mi[None], B, axis=0), None
	if form == "t1":
		mi = motif_idx(mot, A)
		t, tb = gen.relayout(to_ohe(mi[None], A, mdt), gen.layout_of(params,
			"motif"))
		return t, numpy.repeat(mi[None], B, axis=0), t if tb is None else tb
	if form == "tB":
		mi = numpy.stack([motif_idx(mot[b % len(mot)], A) for b in range(B)])
		t, tb = gen.relayout(to_ohe(mi, A, mdt), gen.layout_of(params,
			"motif"))
		return t, mi, t if tb is None else tb
	if form == "tWrong":
		k = params["wrong_k"]
		mi = numpy.stack([motif_idx(mot[b % len(mot)], A) for b in range(k)])
		t = to_ohe(mi, A, mdt)
		return t, None, t
	raise AssertionError(form)


def mk_start(params):
	s = params["start"]
	if s is None:
		return None
	if params.get("startkind") == "npint":
		return numpy.int64(s)
	if params.get("startkind") == "tensor0d" and s is not None:
		# a position taken from a tensor (e.g. an argmax)
		return torch.tensor(s)
	return s


def first_diff(got, exp):
	if got.shape != exp.shape:
		return "shape %s expected %s" % (got.shape, exp.shape)
	b = int(numpy.argwhere((got != exp).any(axis=1))[0][0])
	return b


def describe(params, idx, b, got, exp, A):
	return {"sequence": strs(idx[b:b + 1], A)[0],
		"got": None if got is None else strs(got[b:b + 1], A)[0],
		"expected": None if exp is None else strs(exp[b:b + 1], A)[0],
		"example": b}


def run_case(cls, params, rec):
	_PERM["on"] = bool(params.get("perm_alphabet"))
	try:
		return _run_case(cls, params, rec)
	finally:
		_PERM["on"] = False


def _run_case(cls, params, rec):
	fn = params["fn"]
	if fn in ("substitute", "insert"):
		return case_subins(cls, params, rec)
	if fn == "delete":
		return case_delete(cls, params, rec)
	if fn == "multisubstitute":
		return case_multi(cls, params, rec)
	if fn == "randomize":
		return case_randomize(cls, params, rec)
	raise AssertionError(fn)


def case_subins(cls, params, rec):
	from tangermeme import ersatz
	fn = params["fn"]
	A = params["A"]
	idx = seqs_of(params)
	B, L = idx.shape
	X = to_ohe(idx, A, DT[params.get("xdtype", "int8")])
	params, X, xbase = gen.apply_layout(params, rec, X)
	marg, mi, mt = build_motif(params, B)
	m = len(params["motif"]) if params["form"] in ("str", "t1") else len(
		params["motif"][0])
	p = params["start"]
	startarg = mk_start(params)
	mon = gen.Immutable(X=X, Xbase=xbase, motif=mt, start=startarg
		if isinstance(startarg, torch.Tensor) else None)
	kw = {"alphabet": list(alpha(A))}
	st, val = gen.call(getattr(ersatz, fn), X, marg, start=startarg, **kw)
	ch = mon.changed()
	if ch:
		rec.violation(cls, params, {"what": "caller tensor modified",
			"tensors": ch, "call": st}, mech="C01/input-mutated")
		return
	inside = 0 <= p and p + m <= L and m <= L if fn == "substitute" else (
		0 <= p <= L)
	boundary = (p in (0, L - m, L, L - m + 1, -1) or not inside
		or params["form"] in ("tB", "tWrong"))
	if params["form"] == "tWrong":
		if st == "ok":
			rec.violation(cls, params, {"what": "motif batch %d broadcast "
				"against %d sequences instead of being rejected" % (
				params["wrong_k"], B)}, mech="C01/wrong-batch-accepted")
		else:
			rec.bulk_held(cls, B, B, sample=params)
		return
	if not inside:
		if st == "ok":
			d = {"what": "%s returned for a span outside the sequence" % fn,
				"L": L, "m": m, "start": p}
			got, why = from_ohe(val, A)
			if got is not None and B:
				d["sequence"] = strs(idx[:1], A)[0]
				d["got"] = strs(got[:1], A)[0]
			rec.violation(cls, params, d, mech="C01/out-of-range-accepted")
		else:
			rec.bulk_held(cls, B, B, sample=params)
		return
	# span inside the sequence
	if st == "raise":
		if fn == "insert" and p > L - m:
			rec.refusal(cls + ":insert-near-end", params, repr(val)[:200])
			return
		if params.get("startkind", "int") != "int":
			# only Python ints are documented positions: refusing another
			# kind of object is in order, mis-using it is not
			rec.refusal(cls + ":non-int-position", params, repr(val)[:200])
			return
		rec.violation(cls, params, {"what": "%s raised for a span inside the "
			"sequence" % fn, "L": L, "m": m, "start": p,
			"error": repr(val)[:300]}, mech="C01/valid-span-refused")
		return
	if fn == "substitute":
		exp = idx.copy()
		exp[:, p:p + m] = mi
	else:
		exp = numpy.concatenate([idx[:, :p], mi, idx[:, p:]], axis=1)
	got, why = from_ohe(val, A)
	if got is None:
		rec.violation(cls, params, {"what": "output is not a one-hot "
			"encoding: " + why}, mech="C01/not-one-hot")
		return
	if got.shape != exp.shape or (got != exp).any():
		b = first_diff(got, exp)
		d = {"what": "wrong edit", "L": L, "m": m, "start": p}
		if isinstance(b, int):
			d.update(describe(params, idx, b, got, exp, A))
			d["motif"] = strs(mi[b:b + 1], A)[0]
		else:
			d["shape"] = b
		rec.violation(cls, params, d, mech="C01/wrong-edit")
		return
	rec.bulk_held(cls, B, B if boundary else 0, sample=params)


def case_delete(cls, params, rec):
	from tangermeme import ersatz
	A = params["A"]
	idx = seqs_of(params)
	B, L = idx.shape
	X = to_ohe(idx, A, DT[params.get("xdtype", "int8")])
	params, X, xbase = gen.apply_layout(params, rec, X)
	s, e = params["start"], params["end"]
	mon = gen.Immutable(X=X, Xbase=xbase)
	st, val = gen.call(ersatz.delete, X, s, e)
	if mon.changed():
		rec.violation(cls, params, {"what": "caller tensor modified"},
			mech="C01/input-mutated")
		return
	inside = 0 <= s < e <= L
	empty = 0 <= s == e <= L
	if not inside and not empty:
		if st == "ok":
			got, why = from_ohe(val, A)
			rec.violation(cls, params, {"what": "delete returned for a span "
				"outside the sequence", "L": L, "start": s, "end": e,
				"sequence": strs(idx[:1], A)[0],
				"got": None if got is None else strs(got[:1], A)[0]},
				mech="C01/out-of-range-accepted")
		else:
			rec.bulk_held(cls, B, B, sample=params)
		return
	if st == "raise":
		if empty:
			rec.refusal(cls + ":empty-span", params, repr(val)[:200])
			return
		rec.violation(cls, params, {"what": "delete raised for a span inside "
			"the sequence", "L": L, "start": s, "end": e,
			"error": repr(val)[:300]}, mech="C01/valid-span-refused")
		return
	exp = numpy.concatenate([idx[:, :s], idx[:, e:]], axis=1)
	got, why = from_ohe(val, A)
	if got is None and exp.shape[1] > 0:
		rec.violation(cls, params, {"what": "output is not a one-hot "
			"encoding: " + why}, mech="C01/not-one-hot")
		return
	if exp.shape[1] == 0:
		ok = tuple(val.shape) == (B, A, 0)
	else:
		ok = got.shape == exp.shape and not (got != exp).any()
	if not ok:
		d = {"what": "wrong deletion", "L": L, "start": s, "end": e}
		if got is not None and got.shape == exp.shape:
			b = first_diff(got, exp)
			d.update(describe(params, idx, b, got, exp, A))
		else:
			d["shape"] = str(tuple(val.shape))
		rec.violation(cls, params, d, mech="C01/wrong-edit")
		return
	boundary = s == 0 or e == L or e == s + 1
	rec.bulk_held(cls, B, B if boundary else 0, sample=params)


def case_multi(cls, params, rec):
	"""params: motifs = list of (str | list of str for per-example),
	forms = list of 'str'|'t1'|'tB', spacing = int | list, start = int|None."""
	from tangermeme import ersatz
	A = params["A"]
	idx = seqs_of(params)
	B, L = idx.shape
	X = to_ohe(idx, A, DT[params.get("xdtype", "int8")])
	params, X, xbase = gen.apply_layout(params, rec, X)
	margs, mis, watch = [], [], {}
	for k, (mot, form) in enumerate(zip(params["motifs"], params["forms"])):
		marg, mi, mt = build_motif({"A": A, "form": form, "motif": mot}, B)
		margs.append(marg)
		mis.append(mi)
		if mt is not None:
			watch["motif%d" % k] = mt
	spacing = params["spacing"]
	sp = [spacing] * (len(mis) - 1) if isinstance(spacing, int) else list(
		spacing)
	start = params["start"]
	startarg = mk_start(params)
	if isinstance(startarg, torch.Tensor):
		watch["start"] = startarg
		rec.count("tensor_start_multisubstitute")
	mon = gen.Immutable(X=X, Xbase=xbase, **watch)
	sparg = spacing if isinstance(spacing, int) else list(spacing)
	margs_before = list(margs)
	st, val = gen.call(ersatz.multisubstitute, X, margs, sparg,
		start=startarg, alphabet=list(alpha(A)))
	if (not isinstance(spacing, int) and sparg != list(spacing)) or len(
		margs) != len(margs_before) or any(a is not b for a, b in zip(margs,
		margs_before)):
		# the caller's list objects are arguments like the tensors: a call
		# that rewrites them makes the next call with the same list edit
		# other positions than the caller asked for
		rec.violation(cls, params, {"what": "the caller's spacing / motif "
			"list was modified by the call", "spacing_before": list(spacing)
			if not isinstance(spacing, int) else spacing,
			"spacing_after": sparg}, mech="C01/caller-list-modified")
		return
	if mon.changed():
		rec.violation(cls, params, {"what": "caller tensor modified",
			"tensors": mon.changed()}, mech="C01/input-mutated")
		return
	lens = [mi.shape[1] for mi in mis]

	def expected(s0):
		exp = idx.copy()
		p = s0
		for k, mi in enumerate(mis):
			if p < 0 or p + lens[k] > L:
				return None
			exp[:, p:p + lens[k]] = mi
			if k < len(sp):
				p += lens[k] + sp[k]
		return exp

	if start is None:
		cands = [s0 for s0 in range(0, L + 1) if expected(s0) is not None]
		if st == "raise":
			if cands:
				rec.refusal(cls + ":default-start", params, repr(val)[:200])
			else:
				rec.bulk_held(cls, B, B, sample=params)
			return
		got, why = from_ohe(val, A)
		if got is None:
			rec.violation(cls, params, {"what": "output is not a one-hot "
				"encoding: " + why}, mech="C01/not-one-hot")
			return
		if not any(got.shape == expected(s0).shape and
			not (got != expected(s0)).any() for s0 in cands):
			rec.violation(cls, params, {"what": "default-start result is not "
				"a sequential substitution at any start", "L": L,
				"sequence": strs(idx[:1], A)[0], "got": strs(got[:1], A)[0]},
				mech="C01/wrong-edit")
			return
		rec.bulk_held(cls, B, 0, sample=params)
		return
	exp = expected(start)
	total = sum(lens) + sum(sp)
	if exp is None:
		if st == "ok":
			got, why = from_ohe(val, A)
			rec.violation(cls, params, {"what": "multisubstitute returned "
				"although a motif does not fit", "L": L, "start": start,
				"lens": lens, "spacing": sp,
				"sequence": strs(idx[:1], A)[0],
				"got": None if got is None else strs(got[:1], A)[0]},
				mech="C01/out-of-range-accepted")
		else:
			rec.bulk_held(cls, B, B, sample=params)
		return
	if st == "raise":
		if params.get("startkind", "int") != "int" and start is not None:
			rec.refusal(cls + ":non-int-position", params, repr(val)[:200])
			return
		rec.violation(cls, params, {"what": "multisubstitute raised although "
			"every motif fits", "L": L, "start": start, "lens": lens,
			"spacing": sp, "error": repr(val)[:300]},
			mech="C01/valid-span-refused")
		return
	got, why = from_ohe(val, A)
	if got is None:
		rec.violation(cls, params, {"what": "output is not a one-hot "
			"encoding: " + why}, mech="C01/not-one-hot")
		return
	if got.shape != exp.shape or (got != exp).any():
		b = first_diff(got, exp)
		d = {"what": "wrong multi-substitution", "L": L, "start": start,
			"lens": lens, "spacing": sp}
		if isinstance(b, int):
			d.update(describe(params, idx, b, got, exp, A))
		rec.violation(cls, params, d, mech="C01/wrong-edit")
		return
	boundary = start == 0 or start + total == L or "tB" in params["forms"] \
		or 0 in sp
	rec.bulk_held(cls, B, B if boundary else 0, sample=params)


def case_randomize(cls, params, rec):
	from tangermeme import ersatz
	A = params["A"]
	idx = seqs_of(params)
	B, L = idx.shape
	X = to_ohe(idx, A, DT[params.get("xdtype", "int8")])
	params, X, xbase = gen.apply_layout(params, rec, X)
	s, e, n = params["start"], params["end"], params["n"]
	pk = params["probs"]
	if pk == "uniform":
		# dyadic, so that the float32 copy the implementation makes of a
		# list still sums to exactly 1
		probs = [{2: [.5, .5], 3: [.5, .25, .25], 4: [.25] * 4,
			5: [.25, .25, .25, .125, .125],
			6: [.25, .25, .125, .125, .125, .125]}[A]]
	elif pk == "point":          # all mass on one character per example
		probs = [[1.0 if a == (b % A) else 0.0 for a in range(A)]
			for b in range(B)]
	elif pk == "half":           # two characters only, shared
		probs = [[0.5 if a < 2 else 0.0 for a in range(A)]]
	else:
		raise AssertionError(pk)
	pt = torch.tensor(probs, dtype=torch.float64) if params.get(
		"probs_tensor") else None
	parg = pt if pt is not None else probs
	seed = params["seed"]
	mon = gen.Immutable(X=X, Xbase=xbase, probs=pt)
	st, val = gen.call(ersatz.randomize, X, s, e, probs=parg, n=n,
		random_state=seed)
	if mon.changed():
		rec.violation(cls, params, {"what": "caller tensor modified"},
			mech="C01/input-mutated")
		return
	inside = 0 <= s < e <= L
	if not inside:
		if st == "ok":
			rec.violation(cls, params, {"what": "randomize returned for a "
				"span outside the sequence", "L": L, "start": s, "end": e,
				"shape": str(tuple(val.shape))},
				mech="C01/out-of-range-accepted")
		else:
			rec.bulk_held(cls, B, B, sample=params)
		return
	if st == "raise":
		if e == L:
			rec.refusal(cls + ":end-equals-L", params, repr(val)[:200])
		else:
			rec.violation(cls, params, {"what": "randomize raised for a span "
				"inside the sequence", "L": L, "start": s, "end": e,
				"error": repr(val)[:300]}, mech="C01/valid-span-refused")
		return
	if tuple(val.shape) != (B, n, A, L):
		rec.violation(cls, params, {"what": "shape %s, expected %s" % (
			tuple(val.shape), (B, n, A, L))}, mech="C01/wrong-edit")
		return
	for j in range(n):
		got, why = from_ohe(val[:, j], A)
		if got is None:
			rec.violation(cls, params, {"what": "output %d is not a one-hot "
				"encoding: %s" % (j, why)}, mech="C01/not-one-hot")
			return
		out = numpy.ones(L, dtype=bool)
		out[s:e] = False
		if (got[:, out] != idx[:, out]).any():
			b = int(numpy.argwhere((got[:, out] != idx[:, out]).any(
				axis=1))[0][0])
			d = {"what": "position outside [start, end) altered", "L": L,
				"start": s, "end": e}
			d.update(describe(params, idx, b, got, idx, A))
			rec.violation(cls, params, d, mech="C01/wrong-edit")
			return
		reg = got[:, s:e]
		if pk == "point" and (reg != (numpy.arange(B) % A)[:, None]).any():
			rec.violation(cls, params, {"what": "character with probability "
				"0 drawn (per-example probs)", "got": strs(got[:2], A)},
				mech="C01/randomize-probs")
			return
		if pk == "half" and (reg >= 2).any():
			rec.violation(cls, params, {"what": "character with probability "
				"0 drawn", "got": strs(got[:2], A)},
				mech="C01/randomize-probs")
			return
	if seed is not None:
		st2, val2 = gen.call(ersatz.randomize, X, s, e, probs=parg, n=n,
			random_state=seed)
		if st2 != "ok" or not torch.equal(val, val2):
			rec.violation(cls, params, {"what": "same integer seed, "
				"different result"}, mech="C01/randomize-nondeterministic")
			return
	boundary = s == 0 or e >= L - 1
	rec.bulk_held(cls, B, B if boundary else 0, sample=params)


# ---------------------------------------------------------------------------

def motifs_upto(A, mmax):
	al = alpha(A)
	for m in range(1, mmax + 1):
		for t in itertools.product(al, repeat=m):
			yield "".join(t)


def plan(tier, seed):
	units = []
	if tier == "quick":
		alphas, Lmax, nrand = [2, 4], 4, 40
	else:
		alphas, Lmax, nrand = [2, 3, 4, 5, 6], 5, 600
	for A in alphas:
		for L in range(1, Lmax + 1):
			w = (A ** L) * (A ** 3) / 1000.0 + 1
			for fn in ("substitute", "insert"):
				units.append({"cls": "exh", "fn": fn, "A": A, "L": L,
					"weight": w})
			units.append({"cls": "exh", "fn": "delete", "A": A, "L": L,
				"weight": 1 + w / 50})
			units.append({"cls": "exh", "fn": "multisubstitute", "A": A,
				"L": L, "weight": 1 + w / 4})
			units.append({"cls": "exh", "fn": "randomize", "A": A, "L": L,
				"weight": 1 + w / 50})
	for k in range(nrand):
		units.append({"cls": "rand", "k": k, "seed": seed, "weight": 3})
	return units


def run_unit(unit, rec):
	if unit["cls"] == "exh":
		run_exh(unit, rec)
	else:
		run_rand(unit, rec)


def run_exh(unit, rec):
	fn, A, L = unit["fn"], unit["A"], unit["L"]
	B = A ** L
	allm = list(motifs_upto(A, 3))
	starts = list(range(-3, L + 4))
	base = {"fn": fn, "A": A, "seqs": "all:%d" % L}
	if fn in ("substitute", "insert"):
		cls = "exh-" + fn
		k = 0
		for mot in allm:
			for p in starts:
				k += 1
				form = "str" if k % 2 else "t1"
				pr = dict(base, motif=mot, form=form, start=p)
				if k % 5 == 0:
					pr["xdtype"] = ("float32", "float64", "int64")[k // 5 % 3]
				if k % 7 == 0:
					pr["mdtype"] = ("float32", "float64")[k // 7 % 2]
				if k % 3 == 0:
					pr["startkind"] = "npint"
				run_case(cls, pr, rec)
		# the same motif strings under the reversed alphabet (same size)
		for mot in allm[:12]:
			for p in (0, max(0, L - len(mot))):
				run_case(cls, dict(base, motif=mot, form="str", start=p,
					perm_alphabet=True), rec)
		# per-example motifs: example b receives motif (b*7+3+r) of length m
		for m in (1, 2, 3):
			mm = [x for x in allm if len(x) == m]
			for r in range(min(len(mm), 3)):
				mots = [mm[(b * 7 + 3 + r) % len(mm)] for b in range(min(B,
					len(mm) * 2))]
				for p in starts:
					run_case(cls, dict(base, motif=mots, form="tB", start=p),
						rec)
			# wrong batch sizes
			for wk in sorted({2, 3, B + 1, max(2, B - 1)} - {1, B}):
				for p in (0, max(0, L - m)):
					run_case(cls, dict(base, motif=mm[:3], form="tWrong",
						wrong_k=wk, start=p), rec)
		rec.mark_exhaustive(cls)
	elif fn == "delete":
		cls = "exh-delete"
		for s in starts:
			for e in starts:
				pr = dict(base, start=s, end=e)
				if (s + e) % 4 == 0:
					pr["xdtype"] = "float32"
				run_case(cls, pr, rec)
		rec.mark_exhaustive(cls)
	elif fn == "multisubstitute":
		cls = "exh-multisubstitute"
		short = [x for x in allm if len(x) <= 2]
		pick = lambda i: short[i % len(short)]
		k = 0
		for nm in (1, 2, 3):
			for lens in itertools.product((1, 2, 3), repeat=nm):
				if sum(lens) > L + 2:
					continue
				for spc in ([0] if nm == 1 else [0, 1, 2, "list"]):
					for p in list(range(-2, L + 2)) + [None]:
						k += 1
						mots, forms = [], []
						for j, ln in enumerate(lens):
							mm = [x for x in allm if len(x) == ln]
							if (k + j) % 4 == 3:
								mots.append([mm[(b * 5 + j + k) % len(mm)]
									for b in range(min(B, 2 * len(mm)))])
								forms.append("tB")
							else:
								mots.append(mm[(k * 3 + j) % len(mm)])
								forms.append("str" if (k + j) % 2 else "t1")
						spacing = spc
						if spc == "list":
							spacing = [(k + j) % 3 for j in range(nm - 1)]
						run_case(cls, dict(base, motifs=mots, forms=forms,
							spacing=spacing, start=p), rec)
		rec.mark_exhaustive(cls)
	elif fn == "randomize":
		cls = "exh-randomize"
		k = 0
		for s in starts:
			for e in starts:
				for pk in ("uniform", "point", "half"):
					k += 1
					if pk == "half" and A < 3:
						continue
					run_case(cls, dict(base, start=s, end=e, n=1 + k % 3,
						probs=pk, probs_tensor=bool(k % 2), seed=k % 5), rec)
		rec.mark_exhaustive(cls)


def run_rand(unit, rec):
	r = gen.pyrng("C01", unit["seed"], unit["k"])
	for it in range(25):
		A = r.choice([2, 3, 4, 4, 5, 6])
		al = alpha(A)
		L = r.randint(6, 300)
		B = r.randint(1, 6)
		seqs = [gen.rand_seq(r, L, al) for _ in range(B)]
		m = r.randint(1, min(L, 30))
		bstarts = [0, L - m - 1, L - m, L - m + 1, L, -1, -m, L - 1, L + 1,
			r.randint(0, L - m), r.randint(-5, L + 5)]
		fn = r.choice(["substitute", "insert", "delete", "multisubstitute",
			"randomize"])
		base = {"fn": fn, "A": A, "seqs": seqs,
			"xdtype": r.choice(["int8", "int8", "float32", "float64"]),
			"perm_alphabet": it % 2 == 1}
		if fn in ("substitute", "insert"):
			form = r.choice(["str", "t1", "tB", "tB", "tWrong"])
			if form in ("str", "t1"):
				mot = gen.rand_seq(r, m, al)
			else:
				mot = [gen.rand_seq(r, m, al) for _ in range(B)]
			for p in bstarts:
				pr = dict(base, motif=mot, form=form, start=p,
					startkind=r.choice(["int", "npint", "tensor0d"]))
				if form == "tWrong":
					pr["wrong_k"] = r.choice([k for k in (2, 3, B + 1, B + 2)
						if k not in (1, B)])
				run_case("rand-" + fn, pr, rec)
		elif fn == "delete":
			for s in (0, 1, L - 1, L, -1, r.randint(0, L)):
				for e in (s, s + 1, L, L + 1, L - 1, r.randint(0, L + 2)):
					run_case("rand-delete", dict(base, start=s, end=e), rec)
		elif fn == "multisubstitute":
			nm = r.randint(1, 3)
			lens = [r.randint(1, max(1, min(8, L // 4))) for _ in range(nm)]
			sp = [r.randint(0, max(0, L // 6)) for _ in range(nm - 1)]
			total = sum(lens) + sum(sp)
			mots, forms = [], []
			for ln in lens:
				f = r.choice(["str", "t1", "tB"])
				forms.append(f)
				mots.append(gen.rand_seq(r, ln, al) if f != "tB" else
					[gen.rand_seq(r, ln, al) for _ in range(B)])
			same = nm > 1 and len(set(sp)) == 1 and r.random() < 0.5
			for p in (0, L - total, L - total + 1, L - total - 1, -1, None,
				r.randint(0, max(0, L - total))):
				run_case("rand-multisubstitute", dict(base, motifs=mots,
					forms=forms, spacing=(sp[0] if same else sp), start=p,
					startkind=r.choice(["int", "npint", "tensor0d"])), rec)
		else:
			for (s, e) in ((0, 1), (0, L - 1), (0, L), (L - 2, L - 1),
				(-1, 3), (2, 2), (3, 1), (1, L + 1),
				tuple(sorted(r.sample(range(0, L), 2)))):
				run_case("rand-randomize", dict(base, start=s, end=e,
					n=r.randint(1, 4), probs=r.choice(["uniform", "point"] + (
					["half"] if A > 2 else [])), probs_tensor=r.random() < .5,
					seed=r.choice([None, 0, 7, 123])), rec)
