"""C11  FIMO p-value tables are the exact tail distribution of the discretised
score.

Monitor: the (smallest, table) pair returned by fimo._pwm_to_mapping (serial
kernel, also under NUMBA_BOUNDSCHECK=1) and by fimo._all_pwm_to_mapping (the
parallel driver fimo() uses) is compared entry by entry with the exact tail
probability obtained from an integer-count dynamic programme; for widths <= 7
the dynamic programme is itself cross-checked by enumerating all 4^w
sequences.
"""

import math

import numpy

from .. import gen
from ..refs import fimo_ref as fr

ID = "C11"
LEVEL = "exploration"
REPLAY_ENV = {"NUMBA_NUM_THREADS": "4"}
RULE = ("one case = one (PWM, width 1-30, bin size, pseudocount) table, every "
	"entry compared with the exact tail probability (integer counts; all "
	"4^w sequences enumerated for w <= 7).  PWM classes: Dirichlet columns "
	"(alpha 0.1/0.5/2), columns with zeros, uniform columns, one-hot "
	"columns, mixtures.  Non-trivial = the table has at least 3 attainable "
	"score bins with distinct probabilities; distinct = distinct (PWM, "
	"bin size, eps).")
ASSUMPTIONS = [
	"the discretised score of a column is numpy.round(log2((p+eps)/0.25) / "
	"bin_size) (half-even), the definition used by the statement",
	"tolerance 1e-9 in log2 units (7e-10 relative in p)",
	"4-letter alphabet, uniform background 0.25",
]
REQUIRED = {"entries_compared": 1000, "brute_force_crosschecks": 5,
	"entries_above_max_checked": 20}
TECHNIQUE = ("runtime monitoring: exact integer-count reference (and brute "
	"force for w<=7) compared with every entry of every observed p-value "
	"table; kernel also run under numba bounds checking")

BINS = [0.01, 0.05, 0.1, 0.25, 0.5, 1.0]


def make_pwm(params):
	r = gen.nprng("C11pwm", params["pseed"])
	w, kind = params["w"], params["kind"]
	cols = []
	for i in range(w):
		k = kind if kind != "mixed" else ["d0.1", "d0.5", "d2", "zeros",
			"uniform", "onehot"][int(r.integers(6))]
		if k.startswith("d"):
			c = r.dirichlet([float(k[1:])] * 4)
		elif k == "zeros":
			c = r.dirichlet([1.0] * 4)
			z = r.choice(4, size=int(r.integers(1, 3)), replace=False)
			c[z] = 0
			c = c / c.sum()
		elif k == "uniform":
			c = numpy.full(4, 0.25)
		elif k == "onehot":
			c = numpy.zeros(4)
			c[int(r.integers(4))] = 1.0
		else:
			raise AssertionError(k)
		cols.append(c)
	return numpy.array(cols).T.copy()


def judge_table(rec, cls, params, smallest, table, isc, desc):
	"""-> True if held."""
	table = numpy.asarray(table, dtype=numpy.float64)
	smallest = int(smallest)
	lo, hi, lt = fr.exact_table(isc)
	if numpy.isnan(table).any():
		k = int(numpy.argwhere(numpy.isnan(table))[0][0])
		rec.violation(cls, params, dict(desc, what="NaN in the table",
			index=k, score_bin=k + smallest, max_attainable=hi,
			n_nan=int(numpy.isnan(table).sum())), mech="C11/nan-in-table")
		return False
	if smallest > lo or smallest + len(table) - 1 < hi:
		rec.violation(cls, params, dict(desc, what="table [%d, %d] does not "
			"cover the attainable scores [%d, %d]" % (smallest, smallest +
			len(table) - 1, lo, hi)), mech="C11/table-range")
		return False
	n_above = 0
	for k in range(len(table)):
		s = k + smallest
		got = float(table[k])
		if s <= lo:
			exp = 0.0
		elif s > hi:
			exp = -math.inf
			n_above += 1
		else:
			exp = float(lt[s - lo])
		rec.count("entries_compared")
		if exp == -math.inf:
			ok = got == -math.inf
		else:
			ok = abs(got - exp) <= 1e-9
		if not ok:
			if got > 1e-12:
				mech = "C11/log-p-above-0"
			elif exp == -math.inf:
				mech = "C11/mass-above-max-score"
			elif s == hi and abs(got - exp - 1.0) < 1e-6:
				mech = "C11/top-bin-doubled"
			else:
				mech = "C11/wrong-tail-probability"
			rec.violation(cls, params, dict(desc, what="table entry differs "
				"from the exact tail probability", index=k, score_bin=s,
				min_attainable=lo, max_attainable=hi, got_log2p=got,
				exact_log2p=exp, got_p=2.0 ** got if got < 1 else None,
				exact_p=2.0 ** exp), mech=mech)
			return False
	rec.count("entries_above_max_checked", n_above)
	d = numpy.diff(table)
	if (d > 1e-12).any():
		k = int(numpy.argwhere(d > 1e-12)[0][0])
		rec.violation(cls, params, dict(desc, what="table increases",
			index=k, values=[float(table[k]), float(table[k + 1])]),
			mech="C11/not-monotone")
		return False
	return True


def run_case(cls, params, rec):
	from tangermeme.tools import fimo as F
	pwm = make_pwm(params)
	lo_pwm = fr.log_odds(pwm, params["eps"])
	isc = fr.int_scores(lo_pwm, params["bin"])
	w = params["w"]
	desc = {"w": w, "bin_size": params["bin"], "eps": params["eps"],
		"kind": params["kind"], "pwm": numpy.round(pwm, 6).T.tolist()
		if w <= 8 else "pseed=%d" % params["pseed"]}
	if w <= 7:
		b = fr.brute_table(isc)
		e = fr.exact_table(isc)
		if b[0] != e[0] or b[1] != e[1] or numpy.abs(b[2] - e[2]).max() > 1e-12:
			rec.inconclusive(cls, params, "oracle self-check failed")
			rec.note("DP and brute force disagree for %s" % desc)
			return
		rec.count("brute_force_crosschecks")
	api = params.get("api", "single")
	if api == "single":
		st, val = gen.call(F._pwm_to_mapping, numpy.ascontiguousarray(lo_pwm),
			float(params["bin"]))
		if st == "raise":
			rec.violation(cls, params, dict(desc, what="_pwm_to_mapping "
				"raised", error=repr(val)[:300]), mech="C11/raised")
			return
		smallest, table = val
		if not judge_table(rec, cls, params, smallest, table, isc, desc):
			return
	else:
		# several motifs through the parallel driver, as fimo() does
		import numba
		others = []
		r = gen.pyrng("C11all", params["pseed"])
		for j in range(params.get("n_other", 3)):
			p2 = dict(params, w=r.randint(1, 12), pseed=params["pseed"] * 31 +
				j, kind="mixed")
			others.append(make_pwm(p2))
		pwms = others[:1] + [pwm] + others[1:]
		los = [fr.log_odds(p, params["eps"]) for p in pwms]
		lengths = numpy.cumsum([0] + [p.shape[1] for p in pwms]).astype(
			numpy.uint64)
		cat = numpy.ascontiguousarray(numpy.concatenate(los, axis=1))
		numba.set_num_threads(min(params.get("threads", 4),
			numba.config.NUMBA_NUM_THREADS))
		st, val = gen.call(F._all_pwm_to_mapping, cat, lengths,
			float(params["bin"]))
		if st == "raise":
			rec.violation(cls, params, dict(desc, what="_all_pwm_to_mapping "
				"raised", error=repr(val)[:300]), mech="C11/raised")
			return
		smallests, tables = val
		for j, p in enumerate(pwms):
			iscj = fr.int_scores(los[j], params["bin"])
			if not judge_table(rec, cls, params, smallests[j], tables[j],
				iscj, dict(desc, motif_in_batch=j, w=p.shape[1])):
				return
	lo, hi, lt = fr.exact_table(isc)
	rec.held(cls, params, nontrivial=len(set(numpy.round(lt, 9))) >= 3)


def plan(tier, seed):
	n = 320 if tier == "quick" else 20000
	per = 10 if tier == "quick" else 250
	units = []
	for k0 in range(0, n, per):
		env = {}
		if (k0 // per) % 8 == 7:
			env = {"NUMBA_BOUNDSCHECK": "1"}
		elif (k0 // per) % 8 == 3:
			env = {"NUMBA_NUM_THREADS": "4"}
		units.append({"cls": "tables", "k0": k0, "k1": min(n, k0 + per),
			"seed": seed, "weight": per, "env": env,
			"api": "all" if (k0 // per) % 8 == 3 else "single",
			"tier": tier})
	return units


def gen_case(seed, k, tier):
	r = gen.pyrng("C11", seed, k)
	wmax = 30
	w = r.choice([1, 2, 3, 4, 5, 6, 7]) if k % 3 == 0 else r.randint(1, wmax)
	b = r.choice(BINS)
	if w > 16 and b < 0.05 and tier == "quick":
		b = 0.1
	eps = r.choice([1e-6, 1e-5, 1e-4, 1e-3, 1e-2, 0.1])
	kind = r.choice(["d0.1", "d0.5", "d2", "zeros", "uniform", "onehot",
		"mixed", "mixed"])
	return {"w": w, "bin": b, "eps": eps, "kind": kind,
		"pseed": r.randrange(10 ** 9)}


def run_unit(unit, rec):
	if unit.get("env", {}).get("NUMBA_BOUNDSCHECK"):
		rec.count("boundscheck_units")
	for k in range(unit["k0"], unit["k1"]):
		params = gen_case(unit["seed"], k, unit["tier"])
		params["api"] = unit["api"]
		run_case("table-" + unit["api"] + ("-boundscheck" if unit.get("env",
			{}).get("NUMBA_BOUNDSCHECK") else ""), params, rec)
