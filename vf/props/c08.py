"""C08  Perturbation wrappers evaluate exactly the input that each output index
denotes.

Monitored functions: marginalize.marginalize / marginalize_annotations,
ablate.ablate / ablate_annotations, space.space, product.apply_pairwise /
apply_product.

Monitors
  (a) exact-integer *index-carrying* models built by the harness (float64,
      integer weights, one weight per (output, character, position), 1-3
      outputs returned as tensor / tuple / list, 0-2 extra per-example
      arguments whose example-distinct integer values enter every output) under
      func=predict: every returned entry is compared bit-for-bit with the
      harness model evaluated on the input the harness built for that index;
  (b) a *capturing func* that records and returns exactly the tensors it was
      given (X clone, args clones), so that the inputs that reach func are
      observed directly, whatever the wrapper does with the outputs;
  (c) thorough tier: func=deep_lift_shap and func=saturation_mutagenesis on a
      small float64 conv net, compared with the same func called by the
      harness on the explicitly constructed one-example inputs.

Oracle: the perturbed inputs are built by the harness on *strings* (own
substitution / sequential multi-substitution / span transplant code, own
itertools.product loops over index ranges) and encoded with the harness
encoder.  The only repo primitive used to build expected inputs is the seeded
ersatz.shuffle (allowed by DESIGN.md: monitored by C02); its result is
additionally checked (flanks unchanged, region composition preserved), and a
harness-owned shuffle_fn (deterministic rotation) gives ablate cases whose
expected inputs share nothing with the repo.
"""

import itertools
import traceback
import warnings

import numpy
import torch

from .. import gen

ID = "C08"
LEVEL = "exploration"
RULE = ("one case = one wrapper call, described completely by its parameters "
	"(shapes, sequences seed, motif / annotation list / spacing grid / "
	"argument-set sizes, start, n, seeds, batch size, output kind, number of "
	"extra args, func).  Grids: every output kind (tensor, 1/2/3-tuple, "
	"2-list) x 0/1/2 args x func (predict on an index-carrying integer model, "
	"capturing func returning X / returning (X, *args)) for every wrapper; "
	"annotations 1..6 x outputs 1..3 in all combinations; n shuffles 1..5 x "
	"three shuffle sources; spacing grids 1..4 rows x 1..2 gaps; product sets "
	"of sizes 1..4 with batch sizes 1..prod+1.  B 1..5, L 12..40 drawn from "
	"the seeded RNG.  Non-trivial = the perturbation changes at least one "
	"evaluated input AND the index grid of the output contains at least two "
	"different expected inputs/argument rows (so a wrong index mapping is "
	"visible); distinct = distinct parameter tuples.")
ASSUMPTIONS = [
	"device='cpu'; integer random_state; annotations are an int64 tensor",
	"start=None: the placement of the library's own ersatz.substitute / "
	"multisubstitute default (read off a probe call) is demanded; if it "
	"cannot be probed any centred placement is accepted (floor or ceil of "
	"(L-width)/2), for space per spacing row",
	"layout: the index axes stated by the property (example, shuffle / spacing "
	"row / annotation / argument rows) in the documented order; axes of size "
	"1 are ignored when shapes are compared",
	"a single-output structure may be returned as a tensor or a 1-sequence",
	"a raise on any generated configuration is a violation (the statement "
	"promises a result for any number of annotations, shuffles, spacings and "
	"batch sizes); all generated configurations satisfy the documented "
	"preconditions of the primitives (motifs fit, 0 <= start < end <= L)",
	"deep_lift_shap / saturation_mutagenesis: per-example independence of the "
	"func itself is assumed (C06/C09); tolerance 1e-9 on float64",
	"caller tensors being modified is only counted (not part of C08)",
]
REQUIRED = {"non_int_start_calls": 10, "ablate_large_calls": 2, "ablate_randomstate_calls": 5, "kwargs_overlap_calls": 6, "failed_wrapper_calls": 20, "seed_history_calls": 20, "cap_calls_observed": 50, "ann_ne_out_cases": 10,
	"product_nondividing": 10, "args_cases": 50}
TIMEOUT = {"quick": 900, "thorough": 5400}
# cases cost 1-10 ms, a worker start (torch + numba imports) ~10 s
CHUNKS = {"quick": 8, "thorough": 32}

KINDS = ["tensor", "tuple1", "tuple2", "tuple3", "list2"]
N_OUT = {"tensor": 1, "tuple1": 1, "tuple2": 2, "tuple3": 3, "list2": 2}
DT = {"int8": torch.int8, "float32": torch.float32, "float64": torch.float64}
XDS = ["int8", "float32", "float64"]
# float64 forward/backward passes of a tiny network; wrapper and oracle call
# the same func with the same keyword arguments on the same values, only the
# batch composition differs (a few ulp of O(1..10) values).  Any index error
# produces differences of 1e-3 .. 1.
TOL = 1e-9


# --------------------------------------------------------------------------
# harness-owned data, models and funcs
# --------------------------------------------------------------------------

def distinct_seqs(r, B, L):
	while True:
		s = [gen.rand_seq(r, L) for _ in range(B)]
		if len(set(s)) == B:
			return s


def make_args(n, k, off=0):
	"""k integer-valued float64 argument tensors with n rows; entry (row i,
	arg j, flat column c) = 1000*(i+1) + 100*(j+off) + c."""
	out = []
	for j in range(k):
		shape = [(1,), (2,), (2, 2)][(j + off) % 3]
		ncol = int(numpy.prod(shape))
		a = numpy.zeros((n, ncol))
		for i in range(n):
			for c in range(ncol):
				a[i, c] = 1000 * (i + 1) + 100 * (j + off) + c
		out.append(torch.from_numpy(a).reshape(n, *shape))
	return out


def make_fargs(n, k, seed):
	g = numpy.random.default_rng(gen.seed_of(ID, "fargs", seed))
	out = []
	for j in range(k):
		out.append(torch.from_numpy(g.normal(size=(n, 1 + j % 2)) * 3))
	return out


class IdxModel(torch.nn.Module):
	"""Exact-integer, position-sensitive model.  All values are integers far
	below 2**53, so every result is exact and independent of batching."""

	def __init__(self, L, kind, seed):
		super().__init__()
		g = numpy.random.default_rng(gen.seed_of(ID, "W", seed, L))
		W = g.integers(-2 ** 15, 2 ** 15, size=(9, 4, L))
		self.register_buffer("W", torch.from_numpy(W).to(torch.float64))
		self.p = torch.nn.Parameter(torch.ones(1, dtype=torch.float64))
		self.kind = kind

	def forward(self, X, *args):
		x = X.to(torch.float64)
		B = x.shape[0]
		F = torch.einsum("bal,kal->bk", x, self.W)
		s = []
		for j, a in enumerate(args):
			fl = a.reshape(a.shape[0], -1).to(torch.float64)
			w = torch.arange(1, fl.shape[1] + 1, dtype=torch.float64) * 7 + j
			s.append(fl @ w)
		tot = torch.zeros(B, dtype=torch.float64)
		for j, sj in enumerate(s):
			tot = tot + (j + 1) * sj
		S = torch.stack(s, dim=1) if s else torch.zeros(B, 0,
			dtype=torch.float64)
		# columns 0..2: X only; column 3: X and args mixed; columns 4..: args only
		out0 = torch.cat([F[:, :3], F[:, 3:4] + tot[:, None], S], dim=1)
		out1 = (F[:, 4:8] + tot[:, None]).reshape(B, 2, 2)
		out2 = F[:, 8:9] - tot[:, None]
		k = self.kind
		if k == "tensor":
			return out0
		if k == "tuple1":
			return (out0,)
		if k == "tuple2":
			return out0, out1
		if k == "tuple3":
			return out0, out1, out2
		if k == "list2":
			return [out0, out1]
		raise AssertionError(k)


class FloatModel(torch.nn.Module):
	"""Small float64 conv net for deep_lift_shap / saturation_mutagenesis;
	the extra arguments shift the pre-activations, so they change the
	attributions and not only the output level."""

	def __init__(self, L, seed):
		super().__init__()
		g = torch.Generator().manual_seed(gen.seed_of(ID, "F", seed, L) % (
			2 ** 31))
		self.conv = torch.nn.Conv1d(4, 3, 3, padding=1, dtype=torch.float64)
		self.relu = torch.nn.ReLU()
		self.lin = torch.nn.Linear(3 * L, 2, dtype=torch.float64)
		with torch.no_grad():
			for p in self.parameters():
				p.copy_(torch.randn(p.shape, generator=g, dtype=torch.float64))

	def forward(self, X, *args):
		h = self.conv(X)
		for j, a in enumerate(args):
			h = h + (j + 1) * 0.25 * a.reshape(a.shape[0], -1)[:, :1, None]
		return self.lin(self.relu(h).flatten(1))


def make_cap(mode):
	"""Capturing func.  Returns (cap, log); log entries are (X clone, list of
	arg clones or None, kwargs)."""
	log = []

	def cap(model, X, args=None, **kw):
		Xc = X.clone()
		ac = None if args is None else [a.clone() for a in args]
		log.append((Xc, ac, dict(kw)))
		if mode == "x" or ac is None:
			return X.clone()
		return (X.clone(),) + tuple(a.clone() for a in ac)
	return cap, log


def rot_shuffle(X, start=0, end=-1, n=1, random_state=None):
	"""Harness-owned shuffle_fn: shuffle j rotates the region to the right by
	(j + 1 + random_state) positions."""
	start, end = int(start), int(end)
	rs = int(random_state or 0)
	out = []
	for j in range(n):
		Y = X.clone()
		k = (j + 1 + rs) % (end - start)
		Y[:, :, start:end] = torch.roll(X[:, :, start:end], shifts=k, dims=-1)
		out.append(Y)
	return torch.stack(out, dim=1)


def rot_str(s, start, end, j, rs):
	r = s[start:end]
	k = (j + 1 + rs) % (end - start)
	if k:
		r = r[-k:] + r[:-k]
	return s[:start] + r + s[end:]


def sub_str(s, m, p):
	assert 0 <= p and p + len(m) <= len(s)
	return s[:p] + m + s[p + len(m):]


def centred(L, w, widths=None, row=None):
	"""Placement used when start=None.  The statement says the entry denotes
	the input "with the motif substituted" / "with the motifs at spacing row
	s", i.e. what the library's own primitives (ersatz.substitute /
	ersatz.multisubstitute, monitored by C01) produce without a start; the
	position is read off a probe call.  If the primitive cannot be probed,
	both centred placements are accepted."""
	d = L - w
	both = sorted({d // 2, (d + 1) // 2})
	try:
		from tangermeme import ersatz
		probe = gen.ohe(["A" * L])
		if widths is None:
			out = ersatz.substitute(probe, "C" * w)
		else:
			out = ersatz.multisubstitute(probe, ["C" * k for k in widths],
				[int(x) for x in row])
		dec = gen.decode(out)[0]
		p = dec.index("C")
		if p in both and dec.count("C") == (w if widths is None
			else sum(widths)):
			return [p]
	except Exception:
		pass
	return both


class OracleError(Exception):
	pass


class Ctx:
	pass


def make_ctx(params, L):
	"""Builds model, the func handed to the wrapper, its keyword arguments and
	the harness evaluator evalf(X tensor, list of arg tensors) -> list of
	output tensors with leading dimension = number of rows."""
	c = Ctx()
	f = params["func"]
	c.name = f
	c.afk = None
	c.log = None
	bs = params.get("bs", 32)
	if f in ("predict", "cap-x", "cap-xa"):
		c.model = IdxModel(L, params["kind"], params["dseed"])
		c.exact = True
		c.fkw = {"batch_size": bs, "device": "cpu"}
		if f == "predict":
			from tangermeme.predict import predict
			c.func = predict
			c.is_tensor = params["kind"] == "tensor"
			c.n_out = N_OUT[params["kind"]]
			model = c.model

			def evalf(Xt, argl):
				model.eval()
				with torch.no_grad():
					y = model(Xt, *argl)
				return [y] if isinstance(y, torch.Tensor) else list(y)
		else:
			mode = "x" if f == "cap-x" else "xa"
			c.func, c.log = make_cap(mode)
			multi = mode == "xa" and params["n_args"] > 0
			c.is_tensor = not multi
			c.n_out = 1 + params["n_args"] if multi else 1

			def evalf(Xt, argl):
				return [Xt] + list(argl) if multi else [Xt]
		c.evalf = evalf
		return c

	# attribution funcs (thorough tier)
	c.model = FloatModel(L, params["dseed"])
	c.exact = False
	if f.startswith("dls"):
		from tangermeme.deep_lift_shap import deep_lift_shap
		c.func = deep_lift_shap
		c.fkw = {"batch_size": bs, "device": "cpu", "n_shuffles":
			params.get("ns", 2), "target": params.get("target", 0)}
		if f == "dls-hyp":
			c.fkw["hypothetical"] = True
		# random_state goes through additional_func_kwargs so that it can
		# never be confused with ablate's own random_state
		c.afk = {"random_state": params.get("frs", 3)}
		c.is_tensor, c.n_out = True, 1
	else:
		from tangermeme.ism import saturation_mutagenesis
		c.func = saturation_mutagenesis
		c.fkw = {"batch_size": bs, "device": "cpu"}
		if f == "ism-raw":
			c.fkw["raw_outputs"] = True
			c.is_tensor, c.n_out = False, 2
		else:
			c.is_tensor, c.n_out = True, 1
		if params.get("ism_span"):
			c.afk = {"start": params["ism_span"][0], "end":
				params["ism_span"][1]}
	func, model, fkw, afk = c.func, c.model, c.fkw, c.afk

	def evalf(Xt, argl):
		outs = []
		for i in range(Xt.shape[0]):
			a = tuple(x[i:i + 1] for x in argl) if argl else None
			st, y = gen.call(func, model, Xt[i:i + 1], args=a, **fkw,
				**(dict(afk) if afk else {}))
			if st == "raise":
				raise OracleError("func raised on a one-example input: %r" %
					(y,))
			outs.append([y] if isinstance(y, torch.Tensor) else list(y))
		return [torch.cat([o[k] for o in outs]) for k in range(len(outs[0]))]
	c.evalf = evalf
	return c


# --------------------------------------------------------------------------
# comparison
# --------------------------------------------------------------------------

def sq(t):
	t = t.detach().to(torch.float64)
	return t.reshape([d for d in t.shape if d != 1])


def cmp_tensor(got, exp, exact):
	"""None if equal, else a dict describing the difference."""
	if not isinstance(got, torch.Tensor):
		return {"kind": "type", "what": "entry is a %s, not a tensor" %
			type(got).__name__, "n_bad": 10 ** 9}
	g, e = sq(got), sq(exp)
	if g.shape != e.shape:
		return {"kind": "shape", "what": "shape %s, expected %s" % (
			tuple(got.shape), tuple(exp.shape)), "n_bad": 10 ** 9}
	if tuple(got.shape) == tuple(exp.shape):
		g, e = got.detach().to(torch.float64), exp.detach().to(torch.float64)
	if exact:
		bad = g != e
	else:
		bad = ~torch.isclose(g, e, rtol=TOL, atol=TOL)
	n = int(bad.sum())
	if n == 0:
		return None
	idx = bad.nonzero()[0].tolist()
	d = {"kind": "value", "n_bad": n, "n_total": int(bad.numel()),
		"index": idx, "got": float(g[tuple(idx)]),
		"expected": float(e[tuple(idx)]), "shape": list(g.shape)}
	if g.dim() >= 1:
		d["bad_mask_lastdim"] = [bool(x) for x in bad.reshape(-1,
			bad.shape[-1]).any(dim=0).tolist()][:12]
	return d


def cmp_struct(got, exp, is_tensor, exact):
	"""None if the structure `got` equals the expected list of tensors."""
	n_out = len(exp)
	if isinstance(got, torch.Tensor):
		if n_out != 1:
			return {"kind": "missing", "what": "a single tensor was returned "
				"for %d outputs" % n_out, "n_got": 1, "n_expected": n_out,
				"n_bad": 10 ** 9}
		gl = [got]
	elif isinstance(got, (list, tuple)):
		gl = list(got)
		if len(gl) != n_out:
			avail = all(cmp_tensor(gl[k], exp[k], exact) is None
				for k in range(min(len(gl), n_out)))
			return {"kind": "missing", "what": "%d entries returned for %d "
				"outputs" % (len(gl), n_out), "n_got": len(gl),
				"n_expected": n_out, "returned_entries_match_outputs_0..":
				avail, "n_bad": 10 ** 9}
	else:
		return {"kind": "type", "what": "returned a %s" %
			type(got).__name__, "n_bad": 10 ** 9}
	worst = None
	tot = 0
	for k in range(n_out):
		d = cmp_tensor(gl[k], exp[k], exact)
		if d is not None:
			tot += d["n_bad"]
			if worst is None:
				worst = dict(d, output=k)
	if worst is not None:
		worst["n_bad"] = tot
		worst["outputs_bad"] = [k for k in range(n_out)
			if cmp_tensor(gl[k], exp[k], exact) is not None]
	return worst


def which_part(ctx, diff, n_args):
	"""'args' when only the argument-dependent part of the outputs is wrong,
	else 'x'."""
	if diff.get("kind") != "value" or n_args == 0:
		return "x"
	if ctx.name == "predict":
		m = diff.get("bad_mask_lastdim")
		if diff.get("output") == 0 and m is not None and len(m) >= 4 and \
			not any(m[:3]):
			return "args"
		return "x"
	if ctx.name == "cap-xa":
		return "args" if 0 not in diff.get("outputs_bad", [0]) else "x"
	return "x"


def unsliced_in_log(log):
	"""First log entry whose args do not have one row per row of X."""
	for k, (Xc, ac, kw) in enumerate(log):
		if ac is not None:
			for j, a in enumerate(ac):
				if a.dim() == 0 or a.shape[0] != Xc.shape[0]:
					return {"func_call": k, "X_rows": int(Xc.shape[0]),
						"arg": j, "arg_rows": int(a.shape[0]) if a.dim()
						else None}
	return None


def raised_in_frame(e, names):
	tb = traceback.extract_tb(e.__traceback__)
	return bool(tb) and tb[-1].name in names


def reshape_rows(outs, dims):
	return [o.reshape(*dims, *o.shape[1:]) for o in outs]


def tl(t):
	return t.tolist() if isinstance(t, torch.Tensor) else t


# --------------------------------------------------------------------------
# judging one wrapper call
# --------------------------------------------------------------------------

def judge(rec, cls, params, fnkey, ctx, st, val, parts, alts, nontrivial,
	detail, diag=None, n_ann=None):
	"""parts: labels of the returned structures ('before', 'after') or
	('rows',) for a product; alts: list of alternatives, each a list of
	expected structures (one list of tensors per part); diag(): re-runs the
	call with a capturing func and returns its log (annotations only)."""
	n_args = params["n_args"]
	is_ann = n_ann is not None
	pre = "C08/" + fnkey

	def viol(mech, extra):
		d = dict(detail)
		d.update(extra)
		rec.violation(cls, params, d, mech=mech)

	# (1) what reached func, when it was observed directly
	uns = None
	if ctx.log is not None:
		rec.count("cap_calls_observed", len(ctx.log))
		uns = unsliced_in_log(ctx.log)
	elif is_ann and n_args > 0 and diag is not None and (st == "raise"):
		uns = unsliced_in_log(diag())
	if uns is not None:
		viol(pre + ("-args-not-sliced" if is_ann else "-args-misaligned"),
			dict(uns, what="func was called with %d example(s) and an "
			"argument tensor of %s rows" % (uns["X_rows"], uns["arg_rows"]),
			outcome=("raised: " + repr(val)[:200]) if st == "raise" else
			"returned"))
		return
	if st == "raise":
		if is_ann and not ctx.is_tensor and isinstance(val, IndexError) and \
			raised_in_frame(val, ("marginalize_annotations",
			"ablate_annotations", "<listcomp>")):
			viol("C08/annotations-multi-output-stacking", {"what": "IndexError "
				"while stacking the per-annotation results of a func with %d "
				"outputs over %d annotations" % (ctx.n_out, n_ann),
				"error": repr(val)[:200]})
			return
		if params.get("startkind", "int") != "int" and params.get(
			"start") is not None:
			# only Python ints are documented positions
			rec.refusal(cls, params, "non-int position refused: " + repr(
				val)[:100])
			return
		viol(pre + "-raised", {"what": "raised on a valid configuration",
			"error": repr(val)[:300], "where": [f.name for f in
			traceback.extract_tb(val.__traceback__)][-4:]})
		return
	# (2) returned structure
	if len(parts) == 2:
		if not isinstance(val, (tuple, list)) or len(val) != 2:
			viol(pre + "-output-missing", {"what": "did not return a "
				"(before, after) pair", "type": type(val).__name__})
			return
		gots = list(val)
	else:
		gots = [val]
	best = None
	for alt in alts:
		diffs = [cmp_struct(g, e, ctx.is_tensor, ctx.exact)
			for g, e in zip(gots, alt)]
		if all(d is None for d in diffs):
			rec.held(cls, params, nontrivial=nontrivial)
			return
		score = sum(d["n_bad"] for d in diffs if d is not None)
		if best is None or score < best[0]:
			best = (score, diffs)
	diffs = best[1]
	for label, d in zip(parts, diffs):
		if d is None:
			continue
		d = dict(d)
		d.pop("n_bad", None)
		if d["kind"] == "missing":
			if is_ann and d["n_got"] == n_ann:
				viol("C08/annotations-multi-output-stacking", dict(d,
					part=label, what="%d entries returned (= number of "
					"annotations) for a func with %d outputs" % (d["n_got"],
					d["n_expected"])))
			else:
				viol(pre + "-output-missing", dict(d, part=label))
			return
		if is_ann and n_args > 0 and diag is not None:
			uns = unsliced_in_log(diag())
			if uns is not None:
				viol(pre + "-args-not-sliced", dict(uns, what="func was "
					"called with %d example(s) and an argument tensor of %s "
					"rows; the %s output differs from func on the matched "
					"arguments" % (uns["X_rows"], uns["arg_rows"], label),
					diff=d))
				return
		if which_part(ctx, d, n_args) == "args":
			viol(pre + "-args-misaligned", {"part": label, "diff": d,
				"what": "only the argument-dependent part of the output "
				"differs"})
		else:
			viol("%s-%s-wrong" % (pre, label), {"part": label, "diff": d})
		return


def call_guard(rec, mon):
	ch = mon.changed()
	if ch:
		rec.count("caller_tensors_modified")
		rec.setadd("modified_tensors", ",".join(ch))


def base_detail(params, seqs, args):
	return {"fn": params["fn"], "func": params["func"], "seqs": seqs,
		"args": [tl(a) for a in args], "model": "IdxModel(L, kind=%s, seed=%s)"
		% (params.get("kind"), params.get("dseed"))
		if params["func"] in ("predict", "cap-x", "cap-xa")
		else "FloatModel(L, seed=%s)" % params.get("dseed")}


def setup(params, B=None, L=None, tag="X"):
	B = params["B"] if B is None else B
	L = params["L"] if L is None else L
	r = gen.pyrng(ID, "data", tag, params["dseed"])
	seqs = distinct_seqs(r, B, L)
	attr = params["func"] not in ("predict", "cap-x", "cap-xa")
	xd = torch.float64 if attr else DT[params.get("xdtype", "int8")]
	X = gen.ohe(seqs, dtype=xd)
	if attr:
		args = make_fargs(B, params["n_args"], params["dseed"])
	else:
		args = make_args(B, params["n_args"], params.get("aoff", 0))
	# same values handed over as views into larger storages
	X = gen.relayout(X, gen.layout_of(params, tag))[0]
	args = [gen.relayout(a, gen.layout_of(params, tag, "arg", j))[0]
		if isinstance(a, torch.Tensor) else a for j, a in enumerate(args)]
	return seqs, X, xd, args


def motif_arg(form, strs, B, r_dtype):
	"""strs: one string (forms 'str', 't1') or B strings (form 'tB')."""
	if form == "str":
		return strs
	if form == "t1":
		return gen.ohe([strs], dtype=r_dtype)
	return gen.ohe(list(strs), dtype=r_dtype)


def args_kw(params, args):
	if params["n_args"] > 0:
		return {"args": tuple(args) if params.get("args_tuple", True)
			else list(args)}
	if params.get("args_none"):
		return {"args": None}
	return {}


def func_kw(ctx):
	kw = dict(ctx.fkw)
	if ctx.afk is not None:
		kw["additional_func_kwargs"] = dict(ctx.afk)
	return kw


# --------------------------------------------------------------------------
# the wrappers
# --------------------------------------------------------------------------

def start_kind(params, start, rec):
	"""The object that carries the position: a Python int, a numpy integer
	(a value read from an array or a DataFrame column) or a 0-d tensor."""
	k = params.get("startkind", "int")
	if start is None or k == "int":
		return start
	rec.count("non_int_start_calls")
	return numpy.int64(start) if k == "npint" else torch.tensor(start)


def case_marginalize(cls, params, rec):
	from tangermeme.marginalize import marginalize
	seqs, X, xd, args = setup(params)
	B, L = params["B"], params["L"]
	ctx = make_ctx(params, L)
	form = params["motif_form"]
	mot = params["motif"]            # str, or list of B str for 'tB'
	per = list(mot) if form == "tB" else [mot] * B
	w = len(per[0])
	start = params["start"]
	marg = motif_arg(form, mot, B, DT[params.get("mdtype", "int8")])
	kw = func_kw(ctx)
	kw.update(args_kw(params, args))
	mon = gen.Immutable(X=X, **{"a%d" % j: a for j, a in enumerate(args)})
	st, val = gen.call(marginalize, ctx.model, X, marg, start=start_kind(
		params, start, rec), func=ctx.func, **kw)
	call_guard(rec, mon)
	cands = [start] if start is not None else centred(L, w)
	try:
		before = ctx.evalf(gen.ohe(seqs, dtype=xd), args)
		alts = []
		subs_all = []
		for p in cands:
			subs = [sub_str(seqs[i], per[i], p) for i in range(B)]
			subs_all.append(subs)
			alts.append([before, ctx.evalf(gen.ohe(subs, dtype=xd), args)])
	except OracleError as e:
		rec.inconclusive(cls, params, "oracle: " + str(e)[:50])
		return
	nontriv = any(a != b for a, b in zip(subs_all[0], seqs)) and (B >= 2
		or params["n_args"] > 0)
	det = base_detail(params, seqs, args)
	det.update(motif=mot, start=start, accepted_positions=cands,
		expected_inputs=subs_all[0])
	judge(rec, cls, params, "marginalize", ctx, st, val, ("before", "after"),
		alts, nontriv, det)


def expected_shuffles(params, seqs, X, start, end, n, rs, rec):
	"""-> list over examples of list over shuffles of strings, or a dict
	describing why no expectation could be built."""
	L = len(seqs[0])
	e = end if end >= 0 else L + 1 + end
	if params["shuffle_fn"] == "rot":
		return [[rot_str(s, start, e, j, rs) for j in range(n)] for s in seqs]
	from tangermeme.ersatz import shuffle, dinucleotide_shuffle
	# one call of the library's own shuffle on the whole batch with a fresh
	# generator of the same seed (the shuffles themselves are judged by C02)
	if params["shuffle_fn"] == "dinuc":
		st, Y = gen.call(dinucleotide_shuffle, X.clone(), start=start,
			end=end, n=n, random_state=rs)
	else:
		st, Y = gen.call(shuffle, X.clone(), start=start, end=end, n=n,
			random_state=numpy.random.RandomState(rs) if params.get(
			"rs_kind") == "RandomState" else rs)
	if st == "raise":
		return {"oracle": "ersatz.shuffle raised: %r" % (Y,)}
	if tuple(Y.shape) != (len(seqs), n, 4, L):
		return {"oracle": "ersatz.shuffle returned shape %s" % (tuple(
			Y.shape),)}
	out = []
	for i, s in enumerate(seqs):
		try:
			row = gen.decode(Y[i])
		except gen.NotOneHot as ex:
			return {"bad": "shuffle %d is not one-hot: %s" % (i, ex)}
		for j, t in enumerate(row):
			if t[:start] != s[:start] or t[e:] != s[e:]:
				return {"bad": "example %d shuffle %d: region outside "
					"[%d,%d) changed: %s -> %s" % (i, j, start, e, s, t)}
			if sorted(t[start:e]) != sorted(s[start:e]):
				return {"bad": "example %d shuffle %d: composition of the "
					"region changed: %s -> %s" % (i, j, s, t)}
		out.append(row)
	rec.count("shuffle_region_checks", len(seqs) * n)
	return out


def shuffle_kw(params):
	sf = params["shuffle_fn"]
	if sf == "rot":
		return {"shuffle_fn": rot_shuffle}
	if sf == "ersatz":
		from tangermeme.ersatz import shuffle
		return {"shuffle_fn": shuffle}
	if sf == "dinuc":
		from tangermeme.ersatz import dinucleotide_shuffle
		return {"shuffle_fn": dinucleotide_shuffle}
	return {}


def case_ablate(cls, params, rec):
	from tangermeme.ablate import ablate
	seqs, X, xd, args = setup(params)
	B, L = params["B"], params["L"]
	ctx = make_ctx(params, L)
	start, end, n, rs = (params["start"], params["end"], params["n"],
		params["rs"])
	kw = func_kw(ctx)
	kw.update(shuffle_kw(params))
	if params["n_args"] > 0 or params.get("args_none"):
		kw["args"] = tuple(args) if params["n_args"] else None
	mon = gen.Immutable(X=X, **{"a%d" % j: a for j, a in enumerate(args)})
	rs_arg = rs
	if params.get("rs_kind") == "RandomState":
		rs_arg = numpy.random.RandomState(rs)
		rec.count("ablate_randomstate_calls")
	if B * n > 2048:
		rec.count("ablate_large_calls")
	st, val = gen.call(ablate, ctx.model, X, start, end, n=n,
		random_state=rs_arg, func=ctx.func, **kw)
	call_guard(rec, mon)
	exp = expected_shuffles(params, seqs, gen.ohe(seqs, dtype=xd), start, end,
		n, rs, rec)
	det = base_detail(params, seqs, args)
	det.update(start=start, end=end, n=n, random_state=rs,
		shuffle_fn=params["shuffle_fn"])
	if isinstance(exp, dict):
		if "bad" in exp:
			d = dict(det)
			d["what"] = exp["bad"]
			rec.violation(cls, params, d, mech="C08/ablate-region-not-shuffled")
		elif st == "raise" and params["shuffle_fn"] == "dinuc":
			# the dinucleotide shuffle refuses regions without diversity
			# (directly and inside ablate alike)
			rec.refusal(cls, params, repr(val)[:120])
		elif st == "raise":
			d = dict(det)
			d.update(what="raised on a valid configuration",
				error=repr(val)[:300])
			rec.violation(cls, params, d, mech="C08/ablate-raised")
		else:
			rec.inconclusive(cls, params, exp["oracle"][:50])
		return
	flat = [exp[i][j] for i in range(B) for j in range(n)]
	aflat = [torch.stack([a[i] for i in range(B) for j in range(n)])
		for a in args]
	try:
		before = ctx.evalf(gen.ohe(seqs, dtype=xd), args)
		after = reshape_rows(ctx.evalf(gen.ohe(flat, dtype=xd), aflat),
			(B, n))
	except OracleError as e:
		rec.inconclusive(cls, params, "oracle: " + str(e)[:50])
		return
	changed = any(exp[i][j] != seqs[i] for i in range(B) for j in range(n))
	nontriv = changed and (B * n == 1 or len(set(flat)) >= 2)
	det["expected_inputs"] = exp
	judge(rec, cls, params, "ablate", ctx, st, val, ("before", "after"),
		[[before, after]], nontriv, det)


def ann_tensor(params):
	return torch.tensor(params["annotations"], dtype=torch.int64).reshape(-1, 3)


def case_ablate_annotations(cls, params, rec):
	from tangermeme.ablate import ablate_annotations
	seqs, X, xd, args = setup(params)
	B, L = params["B"], params["L"]
	ctx = make_ctx(params, L)
	ann = params["annotations"]
	n, rs = params["n"], params["rs"]
	base = {"n": n, "random_state": rs}
	base.update(shuffle_kw(params))
	base.update(args_kw(params, args))

	def invoke(func, fkw):
		return gen.call(ablate_annotations, ctx.model, X, ann_tensor(params),
			func=func, **base, **fkw)

	def diag():
		cap, log = make_cap("x")
		invoke(cap, {"batch_size": params.get("bs", 32), "device": "cpu"})
		rec.count("cap_calls_observed", len(log))
		return log

	mon = gen.Immutable(X=X, **{"a%d" % j: a for j, a in enumerate(args)})
	st, val = invoke(ctx.func, func_kw(ctx))
	call_guard(rec, mon)
	det = base_detail(params, seqs, args)
	det.update(annotations=ann, n=n, random_state=rs,
		shuffle_fn=params["shuffle_fn"])
	bef, aft, exp_in = [], [], []
	try:
		for idx, s, e in ann:
			ex = expected_shuffles(params, [seqs[idx]], gen.ohe([seqs[idx]],
				dtype=xd), s, e, n, rs, rec)
			if isinstance(ex, dict):
				if "bad" in ex:
					d = dict(det)
					d["what"] = ex["bad"]
					rec.violation(cls, params, d,
						mech="C08/ablate-region-not-shuffled")
				else:
					rec.inconclusive(cls, params, ex["oracle"][:50])
				return
			exp_in.append(ex[0])
			a1 = [a[idx:idx + 1] for a in args]
			an = [torch.stack([a[idx]] * n) for a in args]
			bef.append(ctx.evalf(gen.ohe([seqs[idx]], dtype=xd), a1))
			aft.append(reshape_rows(ctx.evalf(gen.ohe(ex[0], dtype=xd), an),
				(1, n)))
	except OracleError as e:
		rec.inconclusive(cls, params, "oracle: " + str(e)[:50])
		return
	k = len(bef[0])
	before = [torch.stack([b[o] for b in bef]) for o in range(k)]
	after = [torch.stack([a[o] for a in aft]) for o in range(k)]
	n_ann = len(ann)
	if n_ann != ctx.n_out and not ctx.is_tensor:
		rec.count("ann_ne_out_cases")
	rec.setadd("ann_x_outputs", "%d annotations x %d outputs (%s)" % (n_ann,
		ctx.n_out, "tensor" if ctx.is_tensor else "sequence"))
	changed = any(t != seqs[a[0]] for a, row in zip(ann, exp_in) for t in row)
	nontriv = changed and len(set(tuple(a) for a in ann)) >= min(2, n_ann) \
		and (n_ann >= 2 or n >= 2 or B >= 2)
	det["expected_inputs"] = exp_in
	judge(rec, cls, params, "ablate-annotations", ctx, st, val,
		("before", "after"), [[before, after]], nontriv, det, diag=diag,
		n_ann=n_ann)


def case_marginalize_annotations(cls, params, rec):
	from tangermeme.marginalize import marginalize_annotations
	seqs, X, xd, _ = setup(params)
	B0, L0 = params["B0"], params["L0"]
	seqs0, X0, _, args0 = setup(params, B=B0, L=L0, tag="X0")
	ctx = make_ctx(params, L0)
	ann = params["annotations"]
	start = params["start"]
	base = {}
	if start is not None or params.get("start_none_explicit"):
		base["start"] = start
	base.update(args_kw(params, args0))

	def invoke(func, fkw):
		return gen.call(marginalize_annotations, ctx.model, X, X0,
			ann_tensor(params), func=func, **base, **fkw)

	def diag():
		cap, log = make_cap("x")
		invoke(cap, {"batch_size": params.get("bs", 32), "device": "cpu"})
		rec.count("cap_calls_observed", len(log))
		return log

	mon = gen.Immutable(X=X, X0=X0, **{"a%d" % j: a for j, a in
		enumerate(args0)})
	st, val = invoke(ctx.func, func_kw(ctx))
	call_guard(rec, mon)
	det = base_detail(params, seqs, args0)
	det.update(seqs0=seqs0, annotations=ann, start=start)
	try:
		b0 = ctx.evalf(gen.ohe(seqs0, dtype=xd), args0)
		k = len(b0)
		per_ann = []          # per annotation: list of candidate (inputs, outs)
		for idx, s, e in ann:
			span = seqs[idx][s:e]
			cands = [start] if start is not None else centred(L0, e - s)
			per_ann.append([])
			for p in cands:
				subs = [sub_str(t, span, p) for t in seqs0]
				per_ann[-1].append((subs, ctx.evalf(gen.ohe(subs, dtype=xd),
					args0)))
	except OracleError as e:
		rec.inconclusive(cls, params, "oracle: " + str(e)[:50])
		return
	before = [torch.stack([b0[o]] * len(ann)) for o in range(k)]
	alts = []
	combos = list(itertools.product(*[range(len(c)) for c in per_ann]))
	for combo in combos[:64]:
		after = [torch.stack([per_ann[a][c][1][o] for a, c in
			enumerate(combo)]) for o in range(k)]
		alts.append([before, after])
	n_ann = len(ann)
	if n_ann != ctx.n_out and not ctx.is_tensor:
		rec.count("ann_ne_out_cases")
	rec.setadd("ann_x_outputs", "%d annotations x %d outputs (%s)" % (n_ann,
		ctx.n_out, "tensor" if ctx.is_tensor else "sequence"))
	exp_in = [c[0][0] for c in per_ann]
	changed = any(row != seqs0 for row in exp_in)
	nontriv = changed and (n_ann == 1 or len(set(tuple(r) for r in exp_in))
		>= 2) and (n_ann >= 2 or B0 >= 2)
	det["expected_inputs"] = exp_in
	judge(rec, cls, params, "marginalize-annotations", ctx, st, val,
		("before", "after"), alts, nontriv, det, diag=diag, n_ann=n_ann)


def multisub(seqs, per_motifs, row, p):
	"""Own sequential multi-substitution: motif k+1 starts `row[k]` positions
	after motif k ends.  per_motifs[k][i] = motif k for example i."""
	out = list(seqs)
	for k in range(len(per_motifs)):
		out = [sub_str(out[i], per_motifs[k][i], p) for i in range(len(out))]
		if k < len(row):
			p += len(per_motifs[k][0]) + row[k]
	return out


def case_space(cls, params, rec):
	from tangermeme.space import space
	seqs, X, xd, args = setup(params)
	B, L = params["B"], params["L"]
	ctx = make_ctx(params, L)
	form = params["motif_form"]
	mots = params["motifs"]     # list of str, or list of lists of B str
	per = [list(m) if form == "tB" else [m] * B for m in mots]
	marg = [motif_arg(form, m, B, DT[params.get("mdtype", "int8")])
		for m in mots]
	grid = params["spacing"]
	sform = params.get("spacing_form", "list")
	if sform == "tensor":
		sp = torch.tensor(grid, dtype=torch.int64)
	elif sform == "numpy":
		sp = numpy.array(grid, dtype=numpy.int64)
	else:
		sp = [list(r) for r in grid]
	start = params["start"]
	kw = func_kw(ctx)
	kw.update(args_kw(params, args))
	mon = gen.Immutable(X=X, **{"a%d" % j: a for j, a in enumerate(args)})
	st, val = gen.call(space, ctx.model, X, marg, sp, start=start_kind(
		params, start, rec),
		func=ctx.func, **kw)
	call_guard(rec, mon)
	S = len(grid)
	widths = [len(m[0]) for m in per]
	try:
		b0 = ctx.evalf(gen.ohe(seqs, dtype=xd), args)
		k = len(b0)
		per_row = []
		for row in grid:
			tot = sum(widths) + sum(row)
			cands = [start] if start is not None else centred(L, tot, widths,
				row)
			per_row.append([])
			for p in cands:
				subs = multisub(seqs, per, row, p)
				per_row[-1].append((subs, ctx.evalf(gen.ohe(subs, dtype=xd),
					args)))
	except OracleError as e:
		rec.inconclusive(cls, params, "oracle: " + str(e)[:50])
		return
	before = [torch.stack([b0[o]] * S, dim=1) for o in range(k)]
	alts = []
	for combo in itertools.product(*[range(len(c)) for c in per_row]):
		after = [torch.stack([per_row[s][c][1][o] for s, c in
			enumerate(combo)], dim=1) for o in range(k)]
		alts.append([before, after])
	exp_in = [c[0][0] for c in per_row]
	changed = any(r != seqs for r in exp_in)
	nontriv = changed and (S == 1 or len(set(tuple(r) for r in exp_in)) >= 2
		) and (S >= 2 or B >= 2)
	det = base_detail(params, seqs, args)
	det.update(motifs=mots, spacing=grid, start=start,
		expected_inputs=exp_in)
	judge(rec, cls, params, "space", ctx, st, val, ("before", "after"), alts,
		nontriv, det)


def case_product(cls, params, rec):
	from tangermeme import product as P
	seqs, X, xd, _ = setup(params)
	B, L = params["B"], params["L"]
	sizes = params["sizes"]          # rows of each argument set
	pairwise = params["fn"] == "apply_pairwise"
	attr = params["func"] not in ("predict", "cap-x", "cap-xa")
	sets = []
	for j, m in enumerate(sizes):
		if attr:
			sets.append(make_fargs(m, j + 1, params["dseed"] + 17 * j)[j])
		else:
			sets.append(make_args(m, 1, params.get("aoff", 0) + j)[0])
	ctx = make_ctx(params, L)
	bs = params["bs"]
	fkw = {k: v for k, v in ctx.fkw.items() if k not in ("batch_size",
		"device")}
	nested = params.get("nested")
	func = ctx.func
	if nested:
		from tangermeme.marginalize import marginalize
		func = marginalize
		fkw.update(motif=nested["motif"], start=nested["start"])
	kw_afk = {}
	if ctx.afk is not None:
		kw_afk = {"additional_func_kwargs": dict(ctx.afk)}
	if nested and ctx.name != "predict":
		# the inner func of marginalize cannot be given as a plain keyword
		# (apply_* has its own `func`), so it travels in additional_func_kwargs
		kw_afk = {"additional_func_kwargs": {"func": ctx.func}}
	f = P.apply_pairwise if pairwise else P.apply_product
	argv = tuple(sets) if params.get("args_tuple", True) else list(sets)
	mon = gen.Immutable(X=X, **{"a%d" % j: a for j, a in enumerate(sets)})
	st, val = gen.call(f, func, ctx.model, X, args=argv, batch_size=bs,
		device="cpu", **kw_afk, **fkw)
	call_guard(rec, mon)
	if pairwise:
		dims = (B, sizes[0])
		rows = [(i, (j,) * len(sizes)) for i in range(B)
			for j in range(sizes[0])]
	else:
		dims = (B,) + tuple(sizes)
		rows = [(t[0], tuple(t[1:])) for t in itertools.product(range(B),
			*[range(m) for m in sizes])]
	nrows = len(rows)
	if nrows % bs != 0:
		rec.count("product_nondividing")
	rec.setadd("product_shapes", "%s dims=%s bs=%d" % ("pw" if pairwise
		else "pr", dims, bs), cap=400)
	aexp = [torch.stack([sets[k][r[1][k]] for r in rows])
		for k in range(len(sizes))]
	try:
		y0 = reshape_rows(ctx.evalf(gen.ohe([seqs[r[0]] for r in rows],
			dtype=xd), aexp), dims)
		if nested:
			subs = [sub_str(s, nested["motif"], nested["start"]) for s in seqs]
			y1 = reshape_rows(ctx.evalf(gen.ohe([subs[r[0]] for r in rows],
				dtype=xd), aexp), dims)
	except OracleError as e:
		rec.inconclusive(cls, params, "oracle: " + str(e)[:50])
		return
	det = base_detail(params, seqs, sets)
	det.update(sizes=sizes, batch_size=bs, nested=nested, rows=nrows)
	nontriv = nrows >= 2 and (B >= 2 or max(sizes) >= 2)
	params = dict(params)
	fnkey = "pairwise" if pairwise else "product"
	pn = dict(params, n_args=len(sizes))
	if nested:
		judge(rec, cls, pn, fnkey, ctx, st, val, ("before", "after"),
			[[y0, y1]], nontriv, det)
	else:
		judge(rec, cls, pn, fnkey, ctx, st, val, ("row",), [[y0]], nontriv,
			det)


class _Injected(Exception):
	pass


def case_failure_reuse(cls, params, rec):
	"""Fault sequence: a wrapper call whose func raises at its k-th
	application, followed by the same call again on the SAME caller tensors.
	The second call's 'before' must be func on the unmodified inputs, i.e. a
	failed call must not have left an edit in the caller's X / X0 / args."""
	from tangermeme.marginalize import marginalize, marginalize_annotations
	from tangermeme.ablate import ablate, ablate_annotations
	from tangermeme.space import space
	r = gen.pyrng(ID, "failreuse", params["hseed"])
	B, L = params["B"], params["L"]
	seqs = distinct_seqs(r, B, L)
	X = gen.ohe(seqs, dtype=torch.float32)
	X0 = gen.ohe(distinct_seqs(r, B, L), dtype=torch.float32)
	a = torch.arange(B, dtype=torch.float64)[:, None] + 0.5
	model = torch.nn.Identity()
	state = {"n": 0, "fail_at": None}

	def func(model, X, args=None, **kw):
		state["n"] += 1
		if state["fail_at"] is not None and state["n"] == state["fail_at"]:
			raise _Injected("func application %d" % state["n"])
		return X.clone().to(torch.float64)

	fn = params["wrapper"]
	ann = torch.tensor([[i % B, 1 + i, 4 + i] for i in range(3)])
	if fn == "marginalize":
		call = lambda: marginalize(model, X, "ACG", start=params["pos"],
			func=func, args=(a,))
	elif fn == "marginalize_annotations":
		call = lambda: marginalize_annotations(model, X, X0, ann, func=func)
	elif fn == "ablate":
		call = lambda: ablate(model, X, 2, 7, n=2, random_state=3, func=func,
			args=(a,))
	elif fn == "ablate_annotations":
		call = lambda: ablate_annotations(model, X, ann, n=2, random_state=3,
			func=func, args=(a,))
	else:
		call = lambda: space(model, X, ["AC", "GT"], [[1], [2]], start=2,
			func=func)
	state["n"], state["fail_at"] = 0, None
	st, exp = gen.call(call)
	total = state["n"]
	if st == "raise":
		rec.violation(cls, params, {"what": "%s raised without any fault" %
			fn, "error": repr(exp)[:300]}, mech="C08/%s-raised" % fn)
		return
	rec.setadd("func_applications", "%s: %d" % (fn, total))
	for k in range(1, total + 1):
		mon = gen.Immutable(X=X, X0=X0, a=a, ann=ann)
		state["n"], state["fail_at"] = 0, k
		st, val = gen.call(call)
		state["fail_at"] = None
		rec.count("failed_wrapper_calls")
		det = {"wrapper": fn, "sequences": seqs, "failed_func_application": k,
			"of": total}
		if st == "ok":
			rec.violation(cls, params, dict(det, what="the exception raised "
				"by func was swallowed"), mech="C08/func-exception-swallowed")
			return
		if mon.changed():
			rec.violation(cls, params, dict(det, what="caller tensors were "
				"left modified by the failed call", tensors=mon.changed()),
				mech="C08/caller-input-modified-by-failed-call")
			return
		state["n"] = 0
		st, again = gen.call(call)
		same = st == "ok" and _same_nested(again, exp)
		if not same:
			rec.violation(cls, params, dict(det, what="the same call after "
				"the failed one returns another result"),
				mech="C08/wrong-after-failed-call")
			return
	rec.held(cls, params, nontrivial=total >= 2)


def _same_nested(a, b):
	if isinstance(a, torch.Tensor):
		return isinstance(b, torch.Tensor) and a.shape == b.shape and \
			torch.equal(a, b)
	if isinstance(a, (list, tuple)):
		return isinstance(b, (list, tuple)) and len(a) == len(b) and all(
			_same_nested(x, y) for x, y in zip(a, b))
	return a == b


def case_kwargs_overlap(cls, params, rec):
	"""additional_func_kwargs is documented as the route for func arguments
	whose names overlap with the wrapper's own (start, alphabet, n, ...).
	func here has its own `start` / `end` / `n`; the wrapper's `start` places
	the motif, func's `start`/`end` crop what it returns."""
	from tangermeme.marginalize import marginalize, marginalize_annotations
	from tangermeme.ablate import ablate
	from tangermeme.space import space
	r = gen.pyrng(ID, "overlap", params["hseed"])
	B, L = params["B"], params["L"]
	seqs = distinct_seqs(r, B, L)
	X = gen.ohe(seqs, dtype=torch.float32)
	seqs0 = distinct_seqs(r, B, L)
	X0 = gen.ohe(seqs0, dtype=torch.float32)
	model = torch.nn.Identity()
	fs, fe, fn_ = params["fstart"], params["fend"], params["fn_extra"]

	def func(model, X, args=None, start=0, end=None, n=1, **kw):
		return X[:, :, start:end].clone().to(torch.float64) * n

	afk = {"start": fs, "end": fe, "n": fn_}
	w = params["wrapper"]
	p0 = params["pos"]

	def crop(strs):
		return gen.ohe(strs, dtype=torch.float64)[:, :, fs:fe] * fn_

	if w == "marginalize":
		st, val = gen.call(marginalize, model, X, "ACG", start=p0, func=func,
			additional_func_kwargs=dict(afk))
		exp = (crop(seqs), crop([sub_str(s_, "ACG", p0) for s_ in seqs]))
	elif w == "marginalize_annotations":
		ann = [[i % B, 1 + i, 4 + i] for i in range(2)]
		st, val = gen.call(marginalize_annotations, model, X, X0,
			torch.tensor(ann), start=p0, func=func,
			additional_func_kwargs=dict(afk))
		exp = (torch.stack([crop(seqs0) for _ in ann]), torch.stack([crop([
			sub_str(t_, seqs[i_][a_:b_], p0) for t_ in seqs0])
			for i_, a_, b_ in ann]))
	elif w == "space":
		st, val = gen.call(space, model, X, ["AC", "GT"], [[1], [2]],
			start=p0, func=func, additional_func_kwargs=dict(afk))
		rows = [multisub(seqs, [["AC"] * B, ["GT"] * B], row, p0)
			for row in ([1], [2])]
		exp = (torch.stack([crop(seqs)] * 2, dim=1), torch.stack([crop(r_)
			for r_ in rows], dim=1))
	else:
		rec.inconclusive(cls, params, "unknown wrapper")
		return
	rec.count("kwargs_overlap_calls")
	det = {"wrapper": w, "sequences": seqs, "wrapper_start": p0,
		"additional_func_kwargs": afk}
	if st == "raise":
		rec.violation(cls, params, dict(det, what="raised although "
			"overlapping names were routed through additional_func_kwargs",
			error=repr(val)[:300]), mech="C08/additional-func-kwargs-overlap")
		return
	for name, got, e_ in (("before", val[0], exp[0]), ("after", val[1],
		exp[1])):
		if not (isinstance(got, torch.Tensor) and sq(got).shape == sq(
			e_).shape and torch.equal(sq(got), sq(e_))):
			rec.violation(cls, params, dict(det, what="'%s' is not func "
				"applied with the additional_func_kwargs to the input "
				"perturbed at the wrapper's own start" % name,
				got_shape=str(tuple(got.shape)) if isinstance(got,
				torch.Tensor) else str(type(got)),
				expected_shape=str(tuple(e_.shape))),
				mech="C08/additional-func-kwargs-overlap")
			return
	rec.held(cls, params, nontrivial=True)


def case_ablate_seed_history(cls, params, rec):
	"""Call history: ablate(..., random_state=s_k, func=deep_lift_shap) for a
	sequence of different seeds on the same model.  The documentation says
	random_state seeds "both the shuffling step and the function if the
	function also takes in a random state", so call k must equal
	deep_lift_shap(model, <inputs of call k>, random_state=s_k); a seed that
	survives from an earlier call (mutable default, mutated caller dict) shows
	as a 'before' computed with stale references."""
	from tangermeme.ablate import ablate
	from tangermeme.deep_lift_shap import deep_lift_shap
	from tangermeme.ersatz import shuffle
	r = gen.pyrng(ID, "seedhist", params["hseed"])
	B, L, n = params["B"], params["L"], params["n"]
	seqs = distinct_seqs(r, B, L)
	X = gen.ohe(seqs, dtype=torch.float64)
	model = FloatModel(L, params["dseed"])
	start, end = params["start"], params["end"]
	fkw = {"n_shuffles": 2, "device": "cpu", "batch_size": 5}
	mode = params["dict_mode"]
	# a caller-owned, non-empty dict that is passed again on every call
	shared = {"print_convergence_deltas": False} if mode == "reused-dict" \
		else None
	det = {"sequences": seqs, "start": start, "end": end, "n": n,
		"seeds": params["seeds"], "dict_mode": mode}
	for k, sd in enumerate(params["seeds"]):
		kw = dict(fkw)
		if mode == "reused-dict":
			kw["additional_func_kwargs"] = shared
		elif mode == "fresh-dict":
			kw["additional_func_kwargs"] = {}
		st, val = gen.call(ablate, model, X, start, end, n=n,
			random_state=sd, func=deep_lift_shap, **kw)
		if st == "raise":
			rec.violation(cls, params, dict(det, what="ablate raised on call "
				"%d of the history" % k, error=repr(val)[:300]),
				mech="C08/ablate-raised")
			return
		yb, ya = val
		eb = deep_lift_shap(model, X, random_state=sd, **fkw)
		Xs = shuffle(X, start=start, end=end, n=n, random_state=sd)
		ea = deep_lift_shap(model, Xs.reshape(B * n, 4, L), random_state=sd,
			**fkw).reshape(B, n, 4, L)
		rec.count("seed_history_calls")
		for name, got, exp in (("before", yb, eb), ("after", ya, ea)):
			if got.shape != exp.shape or (got - exp).abs().max() > TOL:
				rec.violation(cls, params, dict(det, what="call %d "
					"(random_state=%d): '%s' is not func applied with this "
					"call's random_state" % (k, sd, name), call=k,
					max_abs_diff=float((got - exp).abs().max())
					if got.shape == exp.shape else None,
					matches_first_seed=bool(k > 0 and name == "before" and
					got.shape == exp.shape and (got - deep_lift_shap(model, X,
					random_state=params["seeds"][0], **fkw)).abs().max()
					<= TOL)), mech="C08/ablate-stale-func-seed")
				return
	rec.held(cls, params, nontrivial=len(set(params["seeds"])) > 1)


CASES = {
	"ablate_seed_history": case_ablate_seed_history,
	"marginalize": case_marginalize,
	"ablate": case_ablate,
	"ablate_annotations": case_ablate_annotations,
	"marginalize_annotations": case_marginalize_annotations,
	"space": case_space,
	"apply_pairwise": case_product,
	"apply_product": case_product,
}


def run_case(cls, params, rec):
	if params["fn"] == "failure_reuse":
		return case_failure_reuse(cls, params, rec)
	if params["fn"] == "kwargs_overlap":
		return case_kwargs_overlap(cls, params, rec)
	if params["fn"] == "ablate_seed_history":
		with warnings.catch_warnings():
			warnings.simplefilter("ignore")
			return case_ablate_seed_history(cls, params, rec)
	if params["n_args"] > 0 or params["fn"] in ("apply_pairwise",
		"apply_product"):
		rec.count("args_cases")
	rec.setadd("funcs", params["func"])
	with warnings.catch_warnings():
		warnings.simplefilter("ignore")
		CASES[params["fn"]](cls, params, rec)


# --------------------------------------------------------------------------
# workload
# --------------------------------------------------------------------------

INT_FUNCS = ["predict", "cap-x", "cap-xa"]
ATTR_FUNCS = ["dls", "dls-hyp", "ism", "ism-raw"]


def rand_motif(r, w):
	return gen.rand_seq(r, w)


def common(r, fn, func, kind, n_args, k):
	B = r.randint(1, 5)
	L = r.randint(12, 40)
	p = {"fn": fn, "func": func, "kind": kind, "n_args": n_args, "B": B,
		"L": L, "dseed": r.randrange(10 ** 6), "xdtype": r.choice(XDS),
		"aoff": r.randint(0, 2), "args_tuple": r.random() < 0.7,
		"args_none": r.random() < 0.3}
	if func in ATTR_FUNCS:
		p["kind"] = "tensor"
		p["xdtype"] = "float64"
		p["L"] = L = r.randint(12, 20)
		p["B"] = B = r.randint(1, 4)
		if func.startswith("dls"):
			p.update(ns=r.randint(1, 3), target=r.randint(0, 1),
				frs=r.randint(0, 50))
		elif r.random() < 0.5:
			s = r.randint(0, L - 3)
			p["ism_span"] = [s, r.randint(s + 1, L)]
	return p, B, L


def pick_bs(r, n):
	return r.choice([1, 2, 3, max(1, n - 1), n, n + 1, 32])


def gen_marginalize(r, func, kind, n_args, k):
	p, B, L = common(r, "marginalize", func, kind, n_args, k)
	w = r.randint(1, 6)
	form = ["str", "t1", "tB"][k % 3]
	if form == "tB":
		mot = [rand_motif(r, w) for _ in range(B)]
		if B > 1 and len(set(mot)) == 1:
			mot[0] = "".join("ACGT"[("ACGT".index(c) + 1) % 4] for c in mot[0])
	else:
		mot = rand_motif(r, w)
	p.update(motif_form=form, motif=mot, mdtype=r.choice(XDS),
		start=r.choice([None, 0, L - w, r.randint(0, L - w),
		r.randint(0, L - w)]), bs=pick_bs(r, B),
		startkind=r.choice(["int", "int", "npint", "tensor0d"]))
	return p


def gen_region(r, L, allow_neg=True):
	c = r.random()
	if c < 0.15:
		return 0, L
	if c < 0.25 and allow_neg:
		return r.randint(0, L - 2), -1
	if c < 0.4:
		s = r.randint(0, L - 2)
		return s, L
	if c < 0.55:
		return 0, r.randint(2, L)
	s = r.randint(0, L - 2)
	return s, r.randint(s + 2, L)


def gen_ablate(r, func, kind, n_args, k, n=None, large=False):
	p, B, L = common(r, "ablate", func, kind, n_args, k)
	sf = ["default", "rot", "ersatz", "dinuc"][k % 4]
	if large:
		# more example x shuffle rows than any internal block size, with
		# shuffles that depend on the example's position in the call (per-
		# example seeds of the dinucleotide shuffle) or on a generator state
		sf = ["dinuc", "ersatz", "default"][k % 3]
		p["B"] = B = r.randint(690, 900)
		p["L"] = L = r.randint(12, 20)
		n = 3
	s, e = gen_region(r, L, allow_neg=sf not in ("rot", "dinuc"))
	if sf == "dinuc" and e - s < 6:
		s, e = 0, L
	n = n if n is not None else r.randint(1, 5)
	p.update(start=s, end=e, n=n, rs=r.randint(0, 1000), shuffle_fn=sf,
		bs=pick_bs(r, B * n) if not large else 512)
	if sf in ("default", "ersatz") and (large or r.random() < 0.3):
		p["rs_kind"] = "RandomState"
	return p


def gen_annotations(r, B, L, n_ann, wmax=None):
	ann = []
	for a in range(n_ann):
		idx = r.randrange(B) if a else B - 1     # the last example is used
		c = r.random()
		wm = min(wmax or L, L)
		w = r.randint(2, max(2, min(wm, 8)))
		if c < 0.2:
			s = 0
		elif c < 0.4:
			s = L - w
		else:
			s = r.randint(0, L - w)
		ann.append([idx, s, s + w])
	return ann


def gen_ablate_annotations(r, func, kind, n_args, k, n_ann):
	p, B, L = common(r, "ablate_annotations", func, kind, n_args, k)
	p.update(annotations=gen_annotations(r, B, L, n_ann),
		n=r.randint(1, 4), rs=r.randint(0, 1000),
		shuffle_fn=["default", "rot"][k % 2], bs=pick_bs(r, 3))
	return p


def gen_marginalize_annotations(r, func, kind, n_args, k, n_ann):
	p, B, L = common(r, "marginalize_annotations", func, kind, n_args, k)
	B0 = r.randint(1, 5)
	L0 = r.randint(12, 40) if func not in ATTR_FUNCS else r.randint(12, 20)
	ann = gen_annotations(r, B, L, n_ann, wmax=L0 - 2)
	wmax = max(e - s for _, s, e in ann)
	start = r.choice([None, 0, L0 - wmax, r.randint(0, L0 - wmax)])
	p.update(B0=B0, L0=L0, annotations=ann, start=start,
		start_none_explicit=r.random() < 0.5, bs=pick_bs(r, B0))
	if "ism_span" in p:
		s = r.randint(0, L0 - 3)
		p["ism_span"] = [s, r.randint(s + 1, L0)]
	return p


def gen_space(r, func, kind, n_args, k, S, gaps):
	p, B, L = common(r, "space", func, kind, n_args, k)
	form = ["str", "t1", "tB"][k % 3]
	widths = [r.randint(1, 3) for _ in range(gaps + 1)]
	mots = []
	for w in widths:
		if form == "tB":
			mots.append([rand_motif(r, w) for _ in range(B)])
		else:
			mots.append(rand_motif(r, w))
	start = r.choice([None, 0, r.randint(0, 2)])
	room = L - sum(widths) - (start or 0)
	smax = max(0, min(5, room // gaps))
	grid, seen = [], set()
	tries = 0
	while len(grid) < S and tries < 200:
		tries += 1
		row = [r.randint(0, smax) for _ in range(gaps)]
		if sum(row) <= room and tuple(row) not in seen:
			seen.add(tuple(row))
			grid.append(row)
	# make one row end exactly at the end of the sequence when start is given
	if start is not None and r.random() < 0.3:
		row = [0] * gaps
		row[-1] = room - sum(row)
		if 0 <= row[-1] < L and tuple(row) not in seen:
			grid[-1] = row
	p.update(motif_form=form, motifs=mots, mdtype=r.choice(XDS),
		spacing=grid, spacing_form=r.choice(["list", "tensor", "numpy"]),
		start=start, bs=pick_bs(r, B),
		startkind=r.choice(["int", "int", "npint", "tensor0d"]))
	return p


def gen_product(r, fn, func, kind, sizes, bs, k, nested=False):
	p, B, L = common(r, fn, func, kind, len(sizes), k)
	p.update(sizes=sizes, bs=bs)
	p.pop("args_none", None)
	if nested:
		w = r.randint(2, 5)
		p["nested"] = {"motif": rand_motif(r, w), "start": r.randint(0, L - w)}
	return p


def product_bs(r, B, sizes, pairwise, few):
	n = B * sizes[0] if pairwise else B * int(numpy.prod(sizes))
	allb = list(range(1, n + 2))
	if len(allb) <= few:
		return allb
	pick = {1, n - 1, n, n + 1}
	nond = [b for b in allb if n % b != 0]
	while len(pick) < few:
		pick.add(r.choice(nond if nond and r.random() < 0.8 else allb))
	return sorted(b for b in pick if b >= 1)


def plan(tier, seed):
	reps = 3 if tier == "quick" else 24
	units = []
	for rep in range(reps):
		for kind in KINDS:
			for fn, w in (("marginalize", 2), ("ablate", 4), ("space", 4),
				("marginalize_annotations", 4), ("ablate_annotations", 4),
				("apply_pairwise", 4), ("apply_product", 6), ("nested", 2)):
				units.append({"cls": fn, "kind": kind, "rep": rep,
					"seed": seed, "tier": tier, "weight": w})
	for rep in range(4 if tier == "quick" else 40):
		units.append({"cls": "seedhist", "rep": rep, "seed": seed,
			"tier": tier, "weight": 3})
	if tier == "thorough":
		for rep in range(12):
			for fn in ("marginalize", "ablate", "space",
				"marginalize_annotations", "ablate_annotations",
				"apply_pairwise", "apply_product"):
				for func in ATTR_FUNCS:
					units.append({"cls": "attr", "fn": fn, "func": func,
						"rep": rep, "seed": seed, "tier": tier, "weight": 6})
	return units


def funcs_for(n_args):
	return INT_FUNCS if n_args > 0 else INT_FUNCS[:2]


def run_unit(unit, rec):
	cls = unit["cls"]
	if cls == "attr":
		return run_attr_unit(unit, rec)
	if cls == "seedhist":
		r0 = gen.pyrng(ID, unit["seed"], "failreuse", unit["rep"])
		for w in ("marginalize", "marginalize_annotations", "ablate",
			"ablate_annotations", "space"):
			run_case("failure-reuse", {"fn": "failure_reuse", "func": "cap-x",
				"n_args": 0, "wrapper": w, "B": r0.randint(2, 4),
				"L": r0.randint(12, 20), "pos": r0.randint(0, 8),
				"hseed": r0.randrange(10 ** 6)}, rec)
		for w in ("marginalize", "marginalize_annotations", "space"):
			L_ = r0.randint(14, 22)
			fs_ = r0.randint(0, 5)
			run_case("kwargs-overlap", {"fn": "kwargs_overlap",
				"func": "cap-x", "n_args": 0, "wrapper": w,
				"B": r0.randint(2, 3), "L": L_, "pos": r0.randint(0, 4),
				"fstart": fs_, "fend": r0.randint(fs_ + 3, L_),
				"fn_extra": r0.randint(2, 5), "hseed": r0.randrange(10 ** 6)},
				rec)
		r = gen.pyrng(ID, unit["seed"], "seedhist", unit["rep"])
		for t in range(3):
			L = r.randint(12, 24)
			s0 = r.randint(0, L - 6)
			run_case("ablate-seed-history", {"fn": "ablate_seed_history",
				"func": "dls", "n_args": 0, "B": r.randint(1, 3), "L": L,
				"n": r.randint(1, 3), "start": s0, "end": s0 + r.randint(3,
				6), "dseed": r.randrange(10 ** 6), "hseed": r.randrange(
				10 ** 6), "seeds": [r.randrange(100) for _ in range(3)],
				"dict_mode": ("none", "fresh-dict", "reused-dict")[t]}, rec)
		return
	kind, tier = unit["kind"], unit["tier"]
	r = gen.pyrng(ID, unit["seed"], cls, kind, unit["rep"])
	k = unit["rep"]

	def kk():
		nonlocal k
		k += 1
		return k
	if cls == "marginalize":
		for n_args in (0, 1, 2):
			for func in funcs_for(n_args):
				for _ in range(4):
					run_case(cls, gen_marginalize(r, func, kind, n_args,
						kk()), rec)
	elif cls == "ablate":
		for n_args in (0, 1, 2):
			for func in funcs_for(n_args):
				for n in (1, 2, 3, 4, 5):
					for _ in range(2):
						run_case(cls, gen_ablate(r, func, kind, n_args, kk(),
							n=n), rec)
		if kind == "tensor":
			for j in range(3):
				run_case("ablate-large", gen_ablate(r, "predict", kind, 0,
					kk(), large=True), rec)
	elif cls == "space":
		for n_args in (0, 1, 2):
			for func in funcs_for(n_args):
				for S in (1, 2, 3, 4):
					for gaps in (1, 2):
						run_case(cls, gen_space(r, func, kind, n_args, kk(),
							S, gaps), rec)
	elif cls in ("marginalize_annotations", "ablate_annotations"):
		g = gen_marginalize_annotations if cls.startswith("marg") else \
			gen_ablate_annotations
		for n_args in (0, 1, 2):
			for func in funcs_for(n_args):
				for n_ann in (1, 2, 3, 4, 5, 6):
					run_case(cls, g(r, func, kind, n_args, kk(), n_ann), rec)
	elif cls in ("apply_pairwise", "apply_product"):
		pairwise = cls == "apply_pairwise"
		for n_sets in (1, 2) + ((3,) if tier == "thorough" else ()):
			for func in INT_FUNCS:
				for _ in range(3):
					if pairwise:
						sizes = [r.randint(1, 4)] * n_sets
					else:
						sizes = [r.randint(1, 4) for _ in range(n_sets)]
						if n_sets == 3:
							sizes = [min(s, 3) for s in sizes]
					B = None
					p0 = gen_product(r, cls, func, kind, sizes, 1, kk())
					B = p0["B"]
					for bs in product_bs(r, B, sizes, pairwise, 6):
						run_case(cls, dict(p0, bs=bs), rec)
	elif cls == "nested":
		for fn in ("apply_pairwise", "apply_product"):
			for n_sets in (1, 2):
				for func in ("predict", "cap-xa"):
					sizes = [r.randint(1, 4)] * n_sets if fn == \
						"apply_pairwise" else [r.randint(1, 4)
						for _ in range(n_sets)]
					p0 = gen_product(r, fn, func, kind, sizes, 1, kk(),
						nested=True)
					for bs in product_bs(r, p0["B"], sizes, fn ==
						"apply_pairwise", 3):
						run_case("nested-marginalize", dict(p0, bs=bs), rec)


def run_attr_unit(unit, rec):
	fn, func = unit["fn"], unit["func"]
	r = gen.pyrng(ID, unit["seed"], "attr", fn, func, unit["rep"])
	cls = "attr-" + fn
	k = unit["rep"]
	for n_args in (0, 1, 2, 1, 2, 0, 2, 1):
		k += 1
		if fn == "marginalize":
			p = gen_marginalize(r, func, "tensor", n_args, k)
		elif fn == "ablate":
			p = gen_ablate(r, func, "tensor", n_args, k, n=r.randint(1, 4))
		elif fn == "space":
			p = gen_space(r, func, "tensor", n_args, k, r.randint(1, 3),
				r.randint(1, 2))
		elif fn == "marginalize_annotations":
			p = gen_marginalize_annotations(r, func, "tensor", n_args, k,
				r.randint(1, 4))
		elif fn == "ablate_annotations":
			p = gen_ablate_annotations(r, func, "tensor", n_args, k,
				r.randint(1, 4))
		else:
			if n_args == 0:
				continue
			pw = fn == "apply_pairwise"
			sizes = [r.randint(1, 3)] * n_args if pw else [r.randint(1, 3)
				for _ in range(n_args)]
			p0 = gen_product(r, fn, func, "tensor", sizes, 1, k)
			for bs in product_bs(r, p0["B"], sizes, pw, 3):
				run_case(cls, dict(p0, bs=bs), rec)
			continue
		run_case(cls, p, rec)
