"""Independent references for FIMO (C11, C12).  No tangermeme imports.

exact_table   exact tail distribution of the discretised log-odds score by an
              integer-count dynamic programme (int64 is exact up to width 31
              for a 4-letter alphabet: counts sum to 4^w <= 2^62)
brute_table   the same by enumeration of all 4^w sequences (w <= 8)
scan          pure-Python scanner over every window of every sequence
"""

import itertools
import math

import numpy

ALPHA = "ACGT"
COMP = {"A": "T", "C": "G", "G": "C", "T": "A", "N": "N"}


def log_odds(pwm, eps):
	"""pwm (4, w) probabilities -> log2((p+eps)/0.25), float64"""
	return numpy.log2(numpy.asarray(pwm, dtype=numpy.float64) + eps) - \
		math.log2(0.25)


def int_scores(lo, bin_size):
	"""the discretised per-column scores: numpy half-even rounding"""
	return numpy.round(lo / bin_size).astype(numpy.int64)


def exact_counts(isc):
	"""isc (4, w) integer column scores -> (min_total, counts) where
	counts[k] = number of the 4^w sequences with total score min_total + k"""
	n, w = isc.shape
	assert w <= 31
	lo = int(isc.min(axis=0).sum())
	hi = int(isc.max(axis=0).sum())
	counts = numpy.zeros(hi - lo + 1, dtype=numpy.int64)
	# prefix DP with explicit offsets
	cur_lo = 0
	cur = numpy.ones(1, dtype=numpy.int64)
	for i in range(w):
		col = isc[:, i]
		cmin, cmax = int(col.min()), int(col.max())
		new = numpy.zeros(len(cur) + cmax - cmin, dtype=numpy.int64)
		for c in range(n):
			s = int(col[c]) - cmin
			new[s:s + len(cur)] += cur
		cur, cur_lo = new, cur_lo + cmin
	assert cur_lo == lo and len(cur) == len(counts)
	assert int(cur.sum()) == n ** w
	return lo, cur


def exact_table(isc):
	"""-> (min_total, max_total, log2 tail)  log2tail[k] = log2 P(score >=
	min_total + k), exact counts converted with math.log2 on Python ints"""
	n, w = isc.shape
	lo, counts = exact_counts(isc)
	tail = numpy.cumsum(counts[::-1])[::-1]
	denom = w * math.log2(n)
	lt = numpy.array([math.log2(int(t)) - denom for t in tail])
	return lo, lo + len(counts) - 1, lt


def exact_log2_tail(isc, s):
	"""log2 P(total integer score >= s) for arbitrary integer s"""
	lo, hi, lt = exact_table(isc)
	if s <= lo:
		return 0.0
	if s > hi:
		return -math.inf
	return float(lt[s - lo])


def brute_table(isc):
	n, w = isc.shape
	assert w <= 8
	tot = {}
	for seq in itertools.product(range(n), repeat=w):
		s = sum(int(isc[c, i]) for i, c in enumerate(seq))
		tot[s] = tot.get(s, 0) + 1
	lo, hi = min(tot), max(tot)
	counts = [tot.get(s, 0) for s in range(lo, hi + 1)]
	tail, acc = [], 0
	for c in reversed(counts):
		acc += c
		tail.append(acc)
	tail.reverse()
	return lo, hi, numpy.array([math.log2(t) - w * math.log2(n)
		for t in tail])


def revcomp(s):
	return "".join(COMP[c] for c in reversed(s))


def window_scores(seq, lo):
	"""seq: string over ACGT + anything else (unknown -> contributes 0);
	lo: (4, w) log-odds.  -> list of float scores for starts 0..L-w"""
	w = lo.shape[1]
	idx = [ALPHA.find(c) for c in seq]
	out = []
	for s in range(0, len(seq) - w + 1):
		sc = 0.0
		for j in range(w):
			a = idx[s + j]
			if a >= 0:
				sc += float(lo[a, j])
		out.append(sc)
	return out


def rc_pwm(pwm):
	return numpy.asarray(pwm)[::-1, ::-1]
