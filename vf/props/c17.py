"""C17  GC-matched background loci are valid, disjoint from the input and
GC-balanced  (tangermeme.match.extract_matching_loci).

Monitor: the returned DataFrame of every call is judged against relations
recomputed by the harness from the *generated* genome, signal track and input
loci (prefix sums over the sequence written to the FASTA / the values written
to the bigwig; plain numpy, no tangermeme code):

  per returned row   tile-aligned, inside its chromosome, on a requested
                     chromosome, unique, not a tile overlapped by an input
                     locus, N count <= max_n_perc*W, (bigwig) centred
                     out_window signal <= signal_beta * robust minimum;
  per GC bin         returned >= min(usable inputs, eligible tiles),
                     returned <= eligible tiles;
  totals             rows <= usable inputs;  rows >= min(usable inputs,
                     eligible tiles)  (inputs go unmatched only when the
                     eligible background is exhausted);
  schedules          identical rows for the same integer seed on repetition
                     (global numpy RNG perturbed in between) and for
                     n_jobs 1..4.

The oracle never predicts WHICH tiles are chosen.  Everything that sits on a
float boundary is three-valued: a tile / input whose GC fraction is exactly on
a bin edge belongs to "either neighbour bin", N fraction exactly equal to
max_n_perc and signal within 1e-3 (relative) of the threshold are "may be
eligible"; lower bounds use only definite members, upper bounds use all
possible members, so boundary cases never decide a verdict.

Mechanism keys (one per clause): not-tile-aligned, outside-chromosome,
chromosome-not-requested, duplicate-tile, overlaps-input-tile, too-many-N,
signal-above-threshold (out_window < in_window) /
signal-filter-off-when-in-equals-out (out_window == in_window: the slice
values[:, left:-0] of the implementation is empty), too-many-rows,
bin-underfilled, bin-overfilled, unmatched-while-eligible-remains /
spill-never-reaches-bin0 (every unused eligible tile is in GC bin 0, which the
downward spill `idx > 0` cannot reach), differs-on-repetition,
differs-across-n-jobs, raises-top-gc-bin-outside-histogram (KeyError /
IndexError when floor(1/w + 1/2) > int(1/w), e.g. w = 0.06, and a GC-only
tile or input exists), raised, malformed-result.
"""

import math
import os
import shutil
import tempfile

import numpy

from .. import gen

ID = "C17"
LEVEL = "exploration"
RULE = ("one case = one synthetic genome (2-4 chromosomes assembled from "
	"in_window-sized tiles of controlled GC count: AT-only, GC-only, 3 "
	"case-specific GC levels, random; N stretches with counts around "
	"max_n_perc*W; optional soft-masking; a tail shorter than a tile), one "
	"set of 5-200 input loci (tile-aligned, shrunk, free position/width, "
	"ending on a tile boundary, zero width, too close to a chromosome end), "
	"one parameter tuple (in_window, out_window, gc_bin_width, max_n_perc, "
	"signal_beta, chroms, random_state, bigwig yes/no) and 2-3 calls "
	"(n_jobs=1 twice, then the unit's n_jobs).  Scenarios: mixed; scarce-bin0 "
	"/ scarce-top (inputs outnumber the eligible tiles of their own bin and "
	"the remaining background is AT-only / GC-only, forcing the spill to the "
	"extreme bins); squeeze (inputs in a middle bin, background below and "
	"above); edges (GC counts on bin edges, N counts equal to max_n_perc*W); "
	"topwidth (bin widths whose top bin index exceeds int(1/w)); explicit "
	"hand-written minimal genomes.  Each scenario without bigwig, with "
	"out_window < in_window and with out_window == in_window.  Non-trivial = "
	"at least one row returned and at least one tile of a requested "
	"chromosome is definitely ineligible (a filter had something to do); "
	"distinct = distinct generator tuples.")
ASSUMPTIONS = [
	"conventions of DESIGN.md appendix A: GC bin = floor((gc + w/2)/w) with "
	"gc = #G/C over the window width (N included in the denominator); an "
	"input locus is usable iff its in_window window centred on start + "
	"(end-start)//2 (left flank W//2) lies inside the chromosome and its N "
	"fraction is < max_n_perc; robust minimum = numpy.nanquantile(0.01) of "
	"the centred out_window sums of all inputs whose window lies inside the "
	"chromosome; missing bigwig values count as 0",
	"a tile is 'touched by an input locus' iff it overlaps the half-open "
	"interval [start, end); the additional tile end//W masked by the "
	"implementation when end is a multiple of in_window (or start == end) "
	"is neither required nor forbidden",
	"eligible background = tiles 0..len//W-1 of the chromosomes in `chroms` "
	"(None: the chromosomes that carry input loci)",
	"the centred out_window of a tile may start at (W-O)//2 or at W//2-O//2 "
	"(they differ when W even and O odd); a signal verdict is only drawn when "
	"both agree",
	"float boundaries (GC exactly on a bin edge, N fraction == max_n_perc, "
	"signal within 1e-3 relative of the threshold, threshold undefined "
	"because no input is valid) are non-deciding",
	"out_window <= in_window, every chromosome present in the bigwig, signal "
	"values are small non-negative integers (sums exact in float32)",
	"an exception on these in-domain inputs is a violation; it is a refusal "
	"only when no input locus is valid and a bigwig is given (threshold "
	"undefined)",
]
REQUIRED = {"cases_with_spill": 20, "cases_inputs_unmatched_legitimately": 5,
	"njobs_gt1_calls": 20, "bw_cases_out_lt_in": 10, "bw_cases_in_eq_out": 10,
	"returned_rows": 1000, "returned_rows_bin0": 5, "returned_rows_topbin": 5,
	"tiles_excluded_by_signal": 20, "tiles_excluded_by_N": 20}
TIMEOUT = {"quick": 900, "thorough": 5400}

WORK = os.path.join(os.path.dirname(os.path.dirname(os.path.dirname(
	os.path.abspath(__file__)))), ".work")

IN_WINDOWS = [50, 50, 50, 60, 64, 75, 100, 100, 101, 128, 150, 200, 250, 333,
	500]
# bin widths for which floor(1/w + 1/2) == int(1/w): the bin of GC = 1.0 is
# the last entry of a histogram with int(1/w)+1 entries
SAFE_WIDTHS = [0.01, 0.02, 0.025, 0.03, 0.04, 0.05, 0.05, 0.07, 0.09, 0.1]
# ... and widths for which it is not (see mechanism top-gc-bin)
TOP_WIDTHS = [0.06, 0.015, 0.035, 0.085, 0.095, 0.08]
MAX_NS = [0.0, 0.02, 0.05, 0.1, 0.1, 0.1, 0.2, 0.2, 0.25, 0.3, 0.4, 0.5]
BETAS = [0.1, 0.25, 0.5, 0.5, 1.0, 1.5, 2.0]
SIG_LEVELS = [0, 0, 0, 1, 1, 2, 3, 5, 8, 12, 20, 40]
EDGE_COMBOS = [(100, 0.02), (50, 0.04), (200, 0.01), (100, 0.1), (200, 0.05),
	(150, 0.04), (500, 0.02)]
CHROM_NAMES = ["chr1", "chr2", "chr10", "chrX", "scaf_12", "contigB"]
SCENARIOS = ["mixed", "scarce0", "scarcetop", "squeeze", "edges"]
BWNAME = {0: "", 1: "/bw-out<in", 2: "/bw-out=in"}

EDGE_EPS = 1e-7      # |x - round(x)| below this: GC fraction is on a bin edge
SIG_REL = 1e-3       # DESIGN.md: +1e-3 relative for bigwig float32


# --------------------------------------------------------------------------
# oracle
# --------------------------------------------------------------------------

def gc_bins(g, W, w):
	"""Candidate bins of a window with g G/C characters out of W.
	floor(g/(W w) + 1/2); when that real number is an integer (up to
	EDGE_EPS, the float evaluation (gc + w/2)//w may land on either side)
	both neighbours are returned.  Otherwise the distance to the next
	integer is >= 1/(W*w*1000) >> float error for the decimal widths used."""
	x = g / (W * w) + 0.5
	k = round(x)
	if abs(x - k) < EDGE_EPS:
		return (k - 1, k) if k >= 1 else (0,)
	return (int(math.floor(x)),)


def on_edge(g, W, w):
	return len(gc_bins(g, W, w)) == 2


def prefix(a):
	out = numpy.zeros(len(a) + 1, dtype=numpy.float64 if a.dtype.kind == "f"
		else numpy.int64)
	numpy.cumsum(a, out=out[1:])
	return out


class Oracle:
	"""Everything the property statement talks about, recomputed from the
	generated genome / signal / loci."""

	def __init__(self, case):
		self.case = case
		W, O, w = case["W"], case["O"], case["w"]
		self.W, self.O, self.w = W, O, w
		self.max_n, self.beta = case["max_n"], case["beta"]
		self.use_bw = case["signal"] is not None
		genome = case["genome"]
		self.L = {c: len(s) for c, s in genome.items()}
		self.nt = {c: len(s) // W for c, s in genome.items()}
		self.pgc, self.pn, self.psig = {}, {}, {}
		for c, s in genome.items():
			b = numpy.frombuffer(s.upper().encode("ascii"), dtype=numpy.uint8)
			self.pgc[c] = prefix(((b == 71) | (b == 67)).astype(numpy.int64))
			self.pn[c] = prefix((b == 78).astype(numpy.int64))
			if self.use_bw:
				self.psig[c] = prefix(numpy.nan_to_num(case["signal"][c],
					nan=0.0).astype(numpy.float64))
		loci = case["loci"]
		chroms = case["chroms"]
		if chroms is None:
			chroms = sorted(set(c for c, _, _ in loci))
		self.requested = list(chroms)

		# tiles overlapped by an input locus (hard) / masked by the
		# documented convention start//W .. end//W inclusive (soft)
		self.hard = {c: {} for c in genome}
		self.soft = {c: set() for c in genome}
		for i, (c, s, e) in enumerate(loci):
			if e > s:
				for t in range(s // W, (e - 1) // W + 1):
					self.hard[c].setdefault(t, i)
			self.soft[c].update(range(s // W, e // W + 1))

		# input loci
		mW = self.max_n * W
		self.inputs = []
		sums = []
		for (c, s, e) in loci:
			mid = s + (e - s) // 2
			a, b = mid - W // 2, mid + (W + 1) // 2
			d = {"valid": a >= 0 and b <= self.L[c]}
			if d["valid"]:
				d["g"] = int(self.pgc[c][b] - self.pgc[c][a])
				d["n"] = int(self.pn[c][b] - self.pn[c][a])
				d["bins"] = gc_bins(d["g"], W, w)
				if abs(d["n"] - mW) < 1e-6:
					d["usable"] = None         # N fraction == max_n_perc
				else:
					d["usable"] = d["n"] < mW
				if self.use_bw:
					a2, b2 = mid - O // 2, mid + (O + 1) // 2
					d["sig"] = float(self.psig[c][b2] - self.psig[c][a2])
					sums.append(d["sig"])
			else:
				d["usable"] = False
			self.inputs.append(d)
		self.n_valid = sum(1 for d in self.inputs if d["valid"])
		self.thr = None
		self.robust_min = None
		if self.use_bw and sums:
			self.robust_min = float(numpy.nanquantile(numpy.array(sums,
				dtype=numpy.float64), 0.01))
			self.thr = self.robust_min * self.beta

		# tiles of every chromosome
		self.tg, self.tn, self.ts_lo, self.ts_hi = {}, {}, {}, {}
		for c in genome:
			nt = self.nt[c]
			idx = numpy.arange(nt + 1) * W
			self.tg[c] = numpy.diff(self.pgc[c][idx])
			self.tn[c] = numpy.diff(self.pn[c][idx])
			if self.use_bw:
				st = numpy.arange(nt) * W
				la, lb = (W - O) // 2, W // 2 - O // 2
				sa = self.psig[c][st + la + O] - self.psig[c][st + la]
				sb = self.psig[c][st + lb + O] - self.psig[c][st + lb]
				self.ts_lo[c] = numpy.minimum(sa, sb)
				self.ts_hi[c] = numpy.maximum(sa, sb)

		# eligibility of the tiles of the requested chromosomes:
		# 1 definitely eligible, 0 definitely not, -1 non-deciding
		self.status = {}
		self.n_excl = {"N": 0, "signal": 0, "mask": 0}
		self.n_ambiguous = 0
		for c in self.requested:
			if c not in genome:
				continue
			nt = self.nt[c]
			st = numpy.ones(nt, dtype=numpy.int64)
			amb = numpy.zeros(nt, dtype=bool)
			tn = self.tn[c]
			bad_n = tn > mW + 1e-6
			amb |= numpy.abs(tn - mW) <= 1e-6
			bad_s = numpy.zeros(nt, dtype=bool)
			if self.use_bw:
				if self.thr is None or not math.isfinite(self.thr):
					amb[:] = True
				else:
					hi = self.thr * (1 + SIG_REL) + 1e-6
					lo = self.thr * (1 - SIG_REL) - 1e-6
					bad_s = self.ts_lo[c] > hi
					amb |= (~bad_s) & (self.ts_hi[c] >= lo)
			bad_m = numpy.zeros(nt, dtype=bool)
			for t in self.hard[c]:
				if t < nt:
					bad_m[t] = True
			for t in self.soft[c]:
				if t < nt and not bad_m[t]:
					amb[t] = True
			bad = bad_n | bad_s | bad_m
			st[amb] = -1
			st[bad] = 0
			self.status[c] = st
			self.n_excl["N"] += int((bad_n & ~bad_m).sum())
			self.n_excl["signal"] += int((bad_s & ~bad_m & ~bad_n).sum())
			self.n_excl["mask"] += int(bad_m.sum())
			self.n_ambiguous += int(((st == -1)).sum())

		# histograms (lower bound: definite members of exactly one bin;
		# upper bound: every possible member)
		self.inp_lo, self.inp_hi = {}, {}
		self.inp_lo_total = self.inp_hi_total = 0
		for d in self.inputs:
			if d["usable"] is False:
				continue
			self.inp_hi_total += 1
			for b in d["bins"]:
				self.inp_hi[b] = self.inp_hi.get(b, 0) + 1
			if d["usable"] is True:
				self.inp_lo_total += 1
				if len(d["bins"]) == 1:
					b = d["bins"][0]
					self.inp_lo[b] = self.inp_lo.get(b, 0) + 1
		self.el_lo, self.el_hi = {}, {}
		self.el_lo_total = 0
		self.tile_bins = {}
		for c, st in self.status.items():
			tb = [gc_bins(int(g), W, w) for g in self.tg[c]]
			self.tile_bins[c] = tb
			for t in range(len(st)):
				if st[t] == 0:
					continue
				for b in tb[t]:
					self.el_hi[b] = self.el_hi.get(b, 0) + 1
				if st[t] == 1:
					self.el_lo_total += 1
					if len(tb[t]) == 1:
						self.el_lo[tb[t][0]] = self.el_lo.get(tb[t][0], 0) + 1
		self.n_hist = int(1. / w) + 1

	def overflow(self):
		"""bins of possibly-eligible tiles / possibly-usable inputs that do not
		fit a histogram with int(1/w)+1 entries"""
		return sorted(set(b for b in list(self.el_hi) + list(self.inp_hi)
			if b >= self.n_hist))

	def tile_info(self, c, t):
		d = {"chrom": c, "tile": int(t), "start": int(t * self.W),
			"gc_count": int(self.tg[c][t]), "n_count": int(self.tn[c][t]),
			"gc_bins": list(gc_bins(int(self.tg[c][t]), self.W, self.w))}
		if self.use_bw:
			d["signal_sum"] = [float(self.ts_lo[c][t]), float(self.ts_hi[c][t])]
		return d


def parse_rows(df):
	import pandas
	if not isinstance(df, pandas.DataFrame):
		return None, "returned %s, not a DataFrame" % type(df).__name__
	for col in ("chrom", "start", "end"):
		if col not in df.columns:
			return None, "column %r missing (columns %s)" % (col,
				list(df.columns))
	rows = []
	try:
		for c, s, e in zip(df["chrom"].tolist(), df["start"].tolist(),
			df["end"].tolist()):
			if int(s) != s or int(e) != e:
				return None, "non-integer coordinate %r %r" % (s, e)
			rows.append((str(c), int(s), int(e)))
	except (TypeError, ValueError) as ex:
		return None, "unreadable row: %r" % (ex,)
	return rows, None


def judge(orc, rows):
	"""-> {mechanism: detail of the first witness}, histogram of the returned
	rows, number of structurally sound rows."""
	W, O = orc.W, orc.O
	found = {}

	def add(mech, detail):
		if mech not in found:
			found[mech] = detail

	mW = orc.max_n * W
	seen = set()
	good = []            # (c, t) structurally sound rows
	for (c, s, e) in rows:
		row = {"row": [c, s, e]}
		if c not in orc.L:
			add("C17/outside-chromosome", dict(row, what="unknown chromosome"))
			continue
		if s % W != 0 or e - s != W:
			add("C17/not-tile-aligned", dict(row, in_window=W))
			continue
		if s < 0 or e > orc.L[c]:
			add("C17/outside-chromosome", dict(row, chrom_length=orc.L[c]))
			continue
		t = s // W
		if c not in orc.requested:
			add("C17/chromosome-not-requested", dict(row,
				requested=orc.requested))
			continue
		if (c, t) in seen:
			add("C17/duplicate-tile", row)
			continue
		seen.add((c, t))
		good.append((c, t))
		if t in orc.hard[c]:
			i = orc.hard[c][t]
			add("C17/overlaps-input-tile", dict(row, input_index=i,
				input_locus=list(orc.case["loci"][i])))
		if orc.tn[c][t] > mW + 1e-6:
			add("C17/too-many-N", dict(row, n_count=int(orc.tn[c][t]),
				max_n_perc=orc.max_n, allowed_count=mW))
		if orc.use_bw and orc.thr is not None and math.isfinite(orc.thr):
			if orc.ts_lo[c][t] > orc.thr * (1 + SIG_REL) + 1e-6:
				mech = ("C17/signal-filter-off-when-in-equals-out" if W == O
					else "C17/signal-above-threshold")
				add(mech, dict(row, tile_out_window_signal_sum=float(
					orc.ts_lo[c][t]), threshold=orc.thr,
					robust_minimum_of_inputs=orc.robust_min,
					signal_beta=orc.beta, in_window=W, out_window=O,
					rows_above_threshold=sum(1 for (c2, s2, e2) in rows
						if c2 in orc.status and s2 % W == 0 and 0 <= s2 // W <
						orc.nt[c2] and orc.ts_lo[c2][s2 // W] > orc.thr * (1 +
						SIG_REL) + 1e-6)))

	ret_lo, ret_hi = {}, {}
	for (c, t) in good:
		bins = orc.tile_bins[c][t]
		for b in bins:
			ret_hi[b] = ret_hi.get(b, 0) + 1
		# "at most its eligible count": rows that are individually ineligible
		# are reported by the per-row clauses above, not once more here
		if len(bins) == 1 and orc.status[c][t] != 0:
			ret_lo[bins[0]] = ret_lo.get(bins[0], 0) + 1
	hist = {"usable_inputs_by_bin": _h(orc.inp_lo), "eligible_tiles_by_bin":
		_h(orc.el_lo), "returned_by_bin": _h(ret_hi), "usable_inputs":
		orc.inp_lo_total, "eligible_tiles": orc.el_lo_total,
		"rows_returned": len(rows)}
	if len(rows) > orc.inp_hi_total:
		add("C17/too-many-rows", dict(hist, usable_inputs_upper_bound=
			orc.inp_hi_total))
	for b in sorted(set(orc.inp_lo) & set(orc.el_lo)):
		need = min(orc.inp_lo[b], orc.el_lo[b])
		if ret_hi.get(b, 0) < need:
			add("C17/bin-underfilled", dict(hist, bin=b, required=need,
				got=ret_hi.get(b, 0)))
			break
	for b in sorted(ret_lo):
		if ret_lo[b] > orc.el_hi.get(b, 0):
			add("C17/bin-overfilled", dict(hist, bin=b, eligible_upper_bound=
				orc.el_hi.get(b, 0), got=ret_lo[b]))
			break
	need = min(orc.inp_lo_total, orc.el_lo_total)
	if len(rows) < need:
		left = {}
		zero_only = True
		for c, st in orc.status.items():
			for t in numpy.nonzero(st == 1)[0].tolist():
				if (c, t) in seen:
					continue
				bins = orc.tile_bins[c][t]
				left[bins[0]] = left.get(bins[0], 0) + 1
				if 0 not in bins:
					zero_only = False
		mech = ("C17/spill-never-reaches-bin0" if zero_only else
			"C17/unmatched-while-eligible-remains")
		add(mech, dict(hist, required_rows=need,
			unused_eligible_tiles_by_bin=_h(left)))

	return found, ret_hi, len(good)


# Which clause names a case in which several are violated (the others are
# listed under "also").  Structural clauses first; the clauses whose
# violation is a consequence of another one come after it.
ORDER = ["C17/not-tile-aligned", "C17/outside-chromosome",
	"C17/chromosome-not-requested", "C17/duplicate-tile",
	"C17/overlaps-input-tile", "C17/too-many-N", "C17/too-many-rows",
	"C17/bin-underfilled", "C17/bin-overfilled",
	"C17/unmatched-while-eligible-remains", "C17/signal-above-threshold",
	"C17/differs-on-repetition", "C17/differs-across-n-jobs",
	"C17/spill-never-reaches-bin0",
	"C17/signal-filter-off-when-in-equals-out"]


def _h(d):
	return {str(k): int(d[k]) for k in sorted(d)}


# --------------------------------------------------------------------------
# workload
# --------------------------------------------------------------------------

def make_tile(nr, W, g, n, stretch):
	"""W characters with exactly n N, g from {G,C}, the rest from {A,T}."""
	n = max(0, min(W, n))
	g = max(0, min(W - n, g))
	body = numpy.concatenate([nr.choice(numpy.array([71, 67], dtype=
		numpy.uint8), g), nr.choice(numpy.array([65, 84], dtype=numpy.uint8),
		W - n - g)])
	nr.shuffle(body)
	if n == 0:
		return body
	ns = numpy.full(n, 78, dtype=numpy.uint8)
	if stretch:
		p = int(nr.integers(0, W - n + 1))
		return numpy.concatenate([body[:p], ns, body[p:]])
	out = numpy.concatenate([body, ns])
	nr.shuffle(out)
	return out


def off_edge(g, W, w):
	for d in (0, 1, -1, 2, -2, 3):
		if 0 < g + d < W and not on_edge(g + d, W, w):
			return g + d
	return g


KIND_WEIGHTS = {
	"mixed": {"at": .10, "gc": .08, "low": .17, "mid": .17, "high": .16,
		"rnd": .32},
	"scarce0": {"at": .55, "mid": .35, "rnd": .10},
	"scarcetop": {"gc": .55, "mid": .35, "rnd": .10},
	"squeeze": {"at": .12, "gc": .12, "low": .20, "high": .20, "mid": .36},
	"edges": {"at": .08, "gc": .08, "rnd": .84},
	"topwidth": {"at": .08, "gc": .16, "low": .15, "mid": .15, "high": .16,
		"rnd": .30},
}
PLACE_WEIGHTS = {
	"mixed": {"aligned": .40, "shrunk": .10, "free": .32, "edge": .05,
		"boundary": .10, "zero": .03},
	"scarce": {"aligned": .70, "shrunk": .10, "free": .13, "edge": .04,
		"boundary": .03},
}


def wchoice(r, weights):
	ks = sorted(weights)
	return r.choices(ks, weights=[weights[k] for k in ks])[0]


def generate(params):
	"""generator tuple -> case dict (explicit genome strings, signal arrays,
	loci, call parameters)."""
	seed, u, k = params["seed"], params["u"], params["k"]
	scen, bw = params["scen"], params["bw"]
	big = params.get("big", 0)
	r = gen.pyrng(ID, seed, u, k)
	nr = gen.nprng(ID, seed, u, k, "np")

	if scen == "edges":
		W, w = r.choice(EDGE_COMBOS)
		max_n = r.choice([0.02, 0.1, 0.2, 0.3, 0.5, 0.0])
	else:
		W = r.choice(IN_WINDOWS)
		w = r.choice(TOP_WIDTHS if scen == "topwidth" else SAFE_WIDTHS)
		max_n = r.choice(MAX_NS)
	if bw == 2:
		O = W
	elif bw == 1:
		O = r.choice([W - 1, W - 2, W - 3, W // 2, W // 2 + 1, max(1, W // 4),
			r.randint(1, W - 1)])
		O = max(1, min(W - 1, O))
	else:
		O = r.choice([W, r.randint(1, W)])
	beta = r.choice(BETAS)
	mW = max_n * W

	# genome layout
	budget = (150000 if big else 60000)
	total = r.randint(30, max(40, min(400 if big else 260, budget // W)))
	nchrom = r.randint(2, 4)
	if big == 2:
		# one chromosome of 150-200 kb (past 2**16 and 2**17 positions,
		# thousands of tiles) next to a short one
		total = r.randint(200000 // W, 260000 // W)
		nchrom = 2
	names = r.sample(CHROM_NAMES, nchrom)
	cuts = sorted(r.sample(range(3, total - 3), nchrom - 1)) if total > \
		3 * nchrom + 6 else [total * (i + 1) // nchrom for i in
		range(nchrom - 1)]
	if big == 2:
		cuts = [int(total * r.uniform(.7, .8))]
		if r.random() < .5:
			cuts = [total - cuts[0]]
	sizes = [b - a for a, b in zip([0] + cuts, cuts + [total])]
	sizes = [max(3, s) for s in sizes]
	low = off_edge(int(round(W * r.uniform(.15, .30))), W, w)
	mid = off_edge(int(round(W * r.uniform(.40, .60))), W, w)
	high = off_edge(int(round(W * r.uniform(.70, .85))), W, w)
	kw = KIND_WEIGHTS[scen]
	p_n = {"mixed": .2, "edges": .3}.get(scen, .22)
	n_cands = sorted(set(x for x in (1, int(mW) - 1, int(mW), int(math.ceil(
		mW)), int(mW) + 1, W // 2, W // 2 + 1, W) if 1 <= x <= W))
	soft = r.random() < .25
	genome, kinds, sig = {}, {}, {}
	for name, nt in zip(names, sizes):
		parts, kk = [], []
		for t in range(nt):
			kind = wchoice(r, kw)
			if kind == "at":
				g = 0
			elif kind == "gc":
				g = W
			elif kind == "rnd":
				g = r.randint(0, W) if scen == "edges" else int(
					nr.binomial(W, r.uniform(.1, .9)))
			else:
				g = {"low": low, "mid": mid, "high": high}[kind]
				if r.random() < .3 and scen != "squeeze":
					g += r.choice([-2, -1, 1, 2])
			n = 0
			if r.random() < p_n:
				n = r.choice(n_cands)
				if kind not in ("at", "gc"):
					g = int(round(g * (W - n) / W))
			parts.append(make_tile(nr, W, g, n, r.random() < .6))
			kk.append(kind if n <= mW else "nheavy")
		tail = r.choice([0, 1, W // 2, W - 1, r.randint(0, W - 1)])
		parts.append(make_tile(nr, tail, tail // 2, 0, False) if tail else
			numpy.zeros(0, dtype=numpy.uint8))
		arr = numpy.concatenate(parts)
		s = arr.tobytes().decode("ascii")
		if soft:
			for _ in range(r.randint(1, 4)):
				a = r.randint(0, len(s) - 1)
				b = min(len(s), a + r.randint(1, 3 * W))
				s = s[:a] + s[a:b].lower() + s[b:]
		genome[name] = s
		kinds[name] = kk

	# input loci
	pool_all = [(c, t) for c in names for t in range(len(kinds[c]))]
	if scen in ("scarce0", "scarcetop", "squeeze"):
		pool = [(c, t) for (c, t) in pool_all if kinds[c][t] == "mid"] or \
			pool_all
		n_loci = max(5, min(200, int(len(pool) * r.uniform(.6, 1.6))))
		pw = PLACE_WEIGHTS["scarce"]
	else:
		pool = pool_all
		n_loci = min(r.choice([5, 8, 12, 20, 35, 60, 100, 150, 200]),
			2 * len(pool_all))
		pw = PLACE_WEIGHTS["mixed"]
	loci = []
	for _ in range(n_loci):
		place = wchoice(r, pw)
		c, t = r.choice(pool)
		Lc = len(genome[c])
		if place == "aligned":
			s, e = t * W, (t + 1) * W
		elif place == "shrunk":
			d = r.randint(1, max(1, W // 2 - 1))
			s, e = t * W + d, (t + 1) * W - d
			if e < s:
				s, e = e, s
		elif place == "boundary":
			s = t * W + r.randint(0, W - 1)
			e = (t + 1 + r.randint(0, 1)) * W
			e = min(e, Lc // W * W)
			s = min(s, e)
		elif place == "zero":
			s = e = r.randint(0, Lc)
		elif place == "edge":
			wd = r.randint(1, max(1, W // 2))
			if r.random() < .5:
				s = r.randint(0, max(0, W // 2 - wd // 2 - 1))
			else:
				s = Lc - wd - r.randint(0, max(0, W // 2 - wd // 2 - 1))
			s = max(0, min(Lc - wd, s))
			e = s + wd
		else:
			wd = r.randint(1, 2 * W)
			wd = min(wd, Lc)
			c = r.choice(names)
			Lc = len(genome[c])
			wd = min(wd, Lc)
			s = r.randint(0, Lc - wd)
			e = s + wd
		loci.append((c, int(s), int(e)))

	# which chromosomes may supply background
	x = r.random()
	if x < .4 or scen in ("scarce0", "scarcetop") and x < .7:
		chroms = None
	elif x < .75 or scen in ("scarce0", "scarcetop"):
		chroms = list(names)
		r.shuffle(chroms)
	else:
		chroms = r.sample(names, r.randint(1, nchrom))

	signal = None
	if bw:
		signal = {}
		for c in names:
			Lc = len(genome[c])
			nt = Lc // W
			lv = numpy.array([r.choice(SIG_LEVELS) for _ in range(nt + 1)],
				dtype=numpy.float64)
			a = numpy.repeat(lv, W)[:Lc].copy()
			a += nr.integers(0, 2, size=Lc)
			# spikes at tile edges: visible when the flanks are cut wrongly
			for t in range(nt):
				if r.random() < .25:
					side = r.random() < .5
					m = r.randint(1, max(1, (W - O) // 2 + 1))
					if side:
						a[t * W:t * W + m] += 30
					else:
						a[(t + 1) * W - m:(t + 1) * W] += 30
			signal[c] = a
		for (c, s, e) in loci:
			if r.random() < .9:
				m = s + (e - s) // 2
				h = r.randint(3, 40)
				signal[c][max(0, m - O):min(len(signal[c]), m + O)] += h
		if r.random() < .3:
			for c in names:
				for _ in range(r.randint(0, 3)):
					a0 = r.randint(0, len(signal[c]) - 1)
					signal[c][a0:a0 + r.randint(1, W)] = numpy.nan
		if r.random() < .25 and loci:
			# input loci lying entirely in a stretch without bigwig entries
			# (their count is 0 and takes part in the robust minimum)
			for (c, s_, e_) in r.sample(list(loci), min(len(loci),
				r.randint(1, 2))):
				m_ = s_ + (e_ - s_) // 2
				signal[c][max(0, m_ - W):min(len(signal[c]), m_ + W)] = \
					numpy.nan

	return {"W": W, "O": O, "w": w, "max_n": max_n, "beta": beta,
		"genome": genome, "signal": signal, "loci": loci, "chroms": chroms,
		"random_state": r.choice([0, 1, 7, r.randint(0, 2 ** 31 - 1)]),
		"bed": r.random() < .2, "line": r.choice([50, 60, 61, 80]),
		"nj": params.get("nj", 1), "extra_col": r.random() < .3}


def from_spec(spec):
	"""explicit case: genome as run lengths [[unit, repeats], ...] per
	chromosome, signal as [[value or None, length], ...]."""
	genome = {c: "".join(u * k for u, k in runs) for c, runs in
		spec["genome"].items()}
	signal = None
	if spec.get("signal") is not None:
		signal = {}
		for c in genome:
			runs = spec["signal"].get(c, [[0, len(genome[c])]])
			a = numpy.concatenate([numpy.full(k, numpy.nan if v is None else v,
				dtype=numpy.float64) for v, k in runs])
			assert len(a) == len(genome[c]), (c, len(a), len(genome[c]))
			signal[c] = a
	return {"W": spec["W"], "O": spec["O"], "w": spec["w"], "max_n":
		spec["max_n"], "beta": spec.get("beta", 0.5), "genome": genome,
		"signal": signal, "loci": [tuple(l) for l in spec["loci"]],
		"chroms": spec.get("chroms"), "random_state": spec.get("random_state",
		0), "bed": False, "line": 60, "nj": spec.get("nj", 1),
		"extra_col": False}


def write_fasta(path, genome, line):
	with open(path, "w") as fh:
		for c in genome:
			fh.write(">%s\n" % c)
			s = genome[c]
			for i in range(0, len(s), line):
				fh.write(s[i:i + line] + "\n")


def write_bigwig(path, genome, signal):
	import pyBigWig
	bw = pyBigWig.open(path, "w")
	try:
		names = list(genome)
		bw.addHeader([(c, len(genome[c])) for c in names], maxZooms=0)
		for c in names:
			a = signal[c]
			ok = ~numpy.isnan(a)
			if not ok.any():
				continue
			d = numpy.diff(numpy.concatenate([[0], ok.astype(numpy.int8),
				[0]]))
			starts = numpy.nonzero(d == 1)[0]
			ends = numpy.nonzero(d == -1)[0]
			for s, e in zip(starts.tolist(), ends.tolist()):
				bw.addEntries(c, s, values=a[s:e].astype(numpy.float64),
					span=1, step=1)
	finally:
		bw.close()


def summary(case):
	return {"in_window": case["W"], "out_window": case["O"], "gc_bin_width":
		case["w"], "max_n_perc": case["max_n"], "signal_beta": case["beta"],
		"bigwig": case["signal"] is not None, "chroms": case["chroms"],
		"random_state": case["random_state"], "n_loci": len(case["loci"]),
		"chrom_lengths": {c: len(s) for c, s in case["genome"].items()}}


# --------------------------------------------------------------------------
# monitor
# --------------------------------------------------------------------------

def run_case(cls, params, rec):
	import pandas
	from tangermeme.match import extract_matching_loci

	case = from_spec(params["spec"]) if "spec" in params else generate(params)
	W, O = case["W"], case["O"]
	orc = Oracle(case)
	os.makedirs(WORK, exist_ok=True)
	tmp = tempfile.mkdtemp(prefix="c17-", dir=WORK)
	try:
		fa = os.path.join(tmp, "genome.fa")
		write_fasta(fa, case["genome"], case["line"])
		bwp = None
		if case["signal"] is not None:
			bwp = os.path.join(tmp, "signal.bw")
			write_bigwig(bwp, case["genome"], case["signal"])
		bed = None
		if case["bed"]:
			bed = os.path.join(tmp, "loci.bed")
			with open(bed, "w") as fh:
				for c, s, e in case["loci"]:
					fh.write("%s\t%d\t%d\n" % (c, s, e))

		def loci_arg():
			if bed is not None:
				return bed
			d = {"chrom": [l[0] for l in case["loci"]],
				"start": [l[1] for l in case["loci"]],
				"end": [l[2] for l in case["loci"]]}
			if case["extra_col"]:
				d["name"] = ["peak%d" % i for i in range(len(case["loci"]))]
			# index labels as after sort_values / sample without reset_index
			return gen.reindex(pandas.DataFrame(d), "C17", case["loci"][:3],
				len(case["loci"]))

		# call history: an earlier call on the same files and settings with
		# OTHER input loci (whatever it caches or leaves behind must not
		# influence the judged call)
		if case["random_state"] % 3 == 0:
			rp = gen.pyrng(ID, "prior", case["random_state"], W)
			prior = []
			for c_, seq_ in case["genome"].items():
				nt_ = len(seq_) // W
				for t_ in rp.sample(range(nt_), min(nt_, max(1, nt_ // 3))):
					prior.append((c_, t_ * W + 2, t_ * W + W - 1))
			if prior:
				gen.call(extract_matching_loci, pandas.DataFrame({"chrom":
					[l[0] for l in prior], "start": [l[1] for l in prior],
					"end": [l[2] for l in prior]}), fa, in_window=W,
					out_window=O, max_n_perc=case["max_n"],
					gc_bin_width=case["w"], bigwig=bwp,
					signal_beta=case["beta"], chroms=None if case["chroms"]
					is None else list(case["chroms"]),
					random_state=case["random_state"], n_jobs=1,
					verbose=False)
				rec.count("prior_calls_with_other_loci")
		calls = [("first", 1, 11), ("repeat", 1, 22)]
		if case["nj"] > 1:
			calls.append(("n_jobs", case["nj"], 33))
		results = []
		for label, nj, gseed in calls:
			numpy.random.seed(gseed)       # the global generator must not matter
			st, val = gen.call(extract_matching_loci, loci_arg(), fa,
				in_window=W, out_window=O, max_n_perc=case["max_n"],
				gc_bin_width=case["w"], bigwig=bwp, signal_beta=case["beta"],
				chroms=None if case["chroms"] is None else list(
				case["chroms"]), random_state=case["random_state"],
				n_jobs=nj, verbose=False)
			rec.count("calls")
			if nj > 1:
				rec.count("njobs_gt1_calls")
				rec.setadd("n_jobs", nj)
			results.append((label, nj, st, val))
			if st == "raise" and label == "first":
				break
	finally:
		shutil.rmtree(tmp, ignore_errors=True)

	info = summary(case)
	label, nj, st, val = results[0]
	if st == "raise":
		over = orc.overflow()
		if over and isinstance(val, (KeyError, IndexError)):
			rec.violation(cls, params, dict(info, what="raised instead of "
				"returning: an eligible tile / usable input has a GC bin "
				"index beyond the int(1/gc_bin_width)+1 histogram entries",
				error=repr(val)[:200], bins_beyond_histogram=over,
				histogram_entries=orc.n_hist),
				mech="C17/raises-top-gc-bin-outside-histogram")
		elif orc.use_bw and orc.n_valid == 0:
			rec.refusal(cls, params, "no valid input locus with a bigwig: "
				+ repr(val)[:80])
		else:
			rec.violation(cls, params, dict(info, what="raised on an "
				"in-domain input", error=repr(val)[:300]), mech="C17/raised")
		return

	rows, why = parse_rows(val)
	if rows is None:
		rec.violation(cls, params, dict(info, what=why),
			mech="C17/malformed-result")
		return
	problems, ret_hi, n_good = judge(orc, rows)

	# schedules: repetition and n_jobs
	for (label2, nj2, st2, val2) in results[1:]:
		mech = ("C17/differs-on-repetition" if label2 == "repeat" else
			"C17/differs-across-n-jobs")
		if st2 == "raise":
			problems.setdefault(mech, {"what": "call with n_jobs=%d raised "
				"after the first call returned" % nj2, "error": repr(val2)[
				:200]})
			continue
		rows2, why2 = parse_rows(val2)
		if rows2 != rows:
			problems.setdefault(mech, {"what": "different result for the same "
				"random_state", "n_jobs": [1, nj2], "first": [list(x) for x in
				rows[:20]], "other": None if rows2 is None else [list(x) for
				x in rows2[:20]], "only_first": [list(x) for x in sorted(set(
				rows) - set(rows2 or []))[:10]], "only_other": [list(x) for x
				in sorted(set(rows2 or []) - set(rows))[:10]]})

	# observations
	rec.count("returned_rows", len(rows))
	rec.count("returned_rows_bin0", ret_hi.get(0, 0))
	rec.count("returned_rows_topbin", sum(v for b, v in ret_hi.items()
		if b >= orc.n_hist - 1))
	rec.count("tiles_excluded_by_N", orc.n_excl["N"])
	rec.count("tiles_excluded_by_signal", orc.n_excl["signal"])
	rec.count("tiles_excluded_by_mask", orc.n_excl["mask"])
	rec.count("tiles_nondeciding", orc.n_ambiguous)
	rec.count("tiles_on_requested_chromosomes", sum(len(st) for st in
		orc.status.values()))
	rec.count("input_loci", len(case["loci"]))
	rec.count("inputs_nondeciding", sum(1 for d in orc.inputs if d["usable"]
		is None or (d["usable"] and len(d["bins"]) == 2)))
	rec.count("inputs_invalid_or_too_many_N", sum(1 for d in orc.inputs
		if d["usable"] is False))
	spill = any(orc.inp_lo[b] > orc.el_hi.get(b, 0) for b in orc.inp_lo)
	if spill:
		rec.count("cases_with_spill")
		lo = min(b for b in orc.inp_lo if orc.inp_lo[b] > orc.el_hi.get(b, 0))
		if any(v and b < lo for b, v in ret_hi.items()):
			rec.count("cases_spill_possible_downwards")
		if any(v and b > lo for b, v in ret_hi.items()):
			rec.count("cases_spill_possible_upwards")
	if orc.inp_lo_total > sum(orc.el_hi.values()) and len(rows) > 0:
		rec.count("cases_inputs_unmatched_legitimately")
	if orc.use_bw:
		rec.count("bw_cases_in_eq_out" if W == O else "bw_cases_out_lt_in")
	if len(rows) == 0:
		rec.count("cases_empty_result")
	rec.setadd("in_window", W)
	rec.setadd("gc_bin_width", str(case["w"]))
	rec.setadd("max_n_perc", str(case["max_n"]))
	rec.setadd("signal_beta", str(case["beta"]))
	rec.setadd("chroms_mode", "None" if case["chroms"] is None else
		"list(%d of %d)" % (len(case["chroms"]), len(case["genome"])))
	rec.maxv("loci", len(case["loci"]))
	rec.minv("loci", len(case["loci"]))
	rec.maxv("rows", len(rows))

	nontriv = len(rows) > 0 and sum(orc.n_excl.values()) > 0
	if problems:
		ms = [m for m in ORDER if m in problems]
		detail = dict(info, **problems[ms[0]])
		if len(ms) > 1:
			detail["also"] = ms[1:]
		mech = ms[0]
		rec.violation(cls, params, detail, mech=mech, nontrivial=nontriv)
	else:
		rec.held(cls, params, nontrivial=nontriv)


def shutdown_pool():
	try:
		from joblib.externals.loky import reusable_executor
		ex = getattr(reusable_executor, "_executor", None)
		if ex is not None:
			ex.shutdown(wait=True, kill_workers=True)
	except Exception:
		pass


# ---- explicit, hand-checkable cases ---------------------------------------

def explicit_specs():
	"""Hand-checkable genomes.  W = 50; the unit "ACGT" gives tiles with 25
	G/C (bin 25 at width 0.02), "AT" tiles have 0 G/C (bin 0), "GC" tiles 50.
	An input [50t+2, 50t+49) has midpoint 50t+25, so its in_window window is
	exactly tile t and it touches tile t only."""
	AT, GC, HALF = "AT", "GC", "ACGT"

	def on_tiles(ts, c="c1"):
		return [[c, 50 * t + 2, 50 * t + 49] for t in ts]

	specs = {}
	# 20 tiles at GC 0.5 (0-14 are the 15 inputs, 15-19 eligible) followed by
	# 40 AT-only tiles (eligible, bin 0): 15 usable inputs, 45 eligible tiles
	# -> 15 rows (5 from bin 25, 10 spilled down to bin 0).
	specs["spill-down-to-bin0"] = {"W": 50, "O": 50, "w": 0.02, "max_n": 0.1,
		"genome": {"c1": [[HALF, 250], [AT, 1000]]}, "loci": on_tiles(
		range(15)), "random_state": 0}
	# the same with GC-only instead of AT-only tiles: spill upwards
	specs["spill-up-to-top-bin"] = {"W": 50, "O": 50, "w": 0.02, "max_n": 0.1,
		"genome": {"c1": [[HALF, 250], [GC, 1000]]}, "loci": on_tiles(
		range(15)), "random_state": 0}
	# 15 inputs in bin 0, 3 eligible tiles left in bin 0, 40 in bin 25
	specs["spill-up-from-bin0"] = {"W": 50, "O": 50, "w": 0.02, "max_n": 0.1,
		"genome": {"c1": [[AT, 450], [HALF, 500]]}, "loci": on_tiles(
		range(15)), "random_state": 0}
	# signal: inputs (tiles 0-3) carry 10/bp, tiles 4-11 carry 0, tiles 12-19
	# carry 100/bp.  robust minimum = 10*O, beta 0.5: threshold 5*O; tiles
	# 12-19 sum to 100*O and must never be returned.
	for name, O in (("signal-in-equals-out", 50), ("signal-out-lt-in", 48)):
		specs[name] = {"W": 50, "O": O, "w": 0.02, "max_n": 0.1, "beta": 0.5,
			"genome": {"c1": [[HALF, 250]]}, "signal": {"c1": [[10, 200],
			[0, 400], [100, 400]]}, "loci": on_tiles(range(4)),
			"random_state": 0}
	# all inputs sum to 10*48 = 480, beta 0.5: threshold 240.  Tiles 4-7 carry
	# 4/bp (192, eligible), 8-11 carry 5/bp (240 == threshold, non-deciding),
	# 12-19 carry 6/bp (288, must not be returned)
	specs["signal-at-threshold"] = {"W": 50, "O": 48, "w": 0.02, "max_n": 0.1,
		"beta": 0.5, "genome": {"c1": [[HALF, 250]]}, "signal": {"c1": [[10,
		200], [4, 200], [5, 200], [6, 400]]}, "loci": on_tiles(range(4)),
		"random_state": 5}
	# GC-only tiles with bin width 0.06: floor(1/0.06 + 0.5) = 17, but the
	# histograms have int(1/0.06)+1 = 17 entries (bins 0..16)
	specs["top-bin-width-0.06"] = {"W": 50, "O": 50, "w": 0.06, "max_n": 0.1,
		"genome": {"c1": [[HALF, 250], [GC, 250]]}, "loci": on_tiles([0]),
		"random_state": 0}
	specs["top-bin-width-0.05"] = dict(specs["top-bin-width-0.06"], w=0.05)
	# N filter: tiles 4-7 have 6 N (> 0.1*50), tiles 8-11 have 5 N (== max,
	# non-deciding), tiles 12-13 and c2:1-3 are clean
	specs["n-filter"] = {"W": 50, "O": 50, "w": 0.02, "max_n": 0.1,
		"genome": {"c1": [[HALF, 50], ["N" * 6 + "ACGT" * 11, 4], ["N" * 5 +
		"ACGT" * 11 + "A", 4], [HALF, 25]], "c2": [[HALF, 50]]},
		"loci": on_tiles(range(4)) + [["c2", 0, 10]], "random_state": 3,
		"nj": 2}
	return specs


# --------------------------------------------------------------------------
# plan / units
# --------------------------------------------------------------------------

def plan(tier, seed):
	"""units = scenario x bigwig mode x repetitions.  Every 4th case of a unit
	is additionally called with the unit's n_jobs (2, 3 or 4): one joblib
	worker pool per unit, shut down when the unit ends."""
	units = []
	u = 0
	reps = 2 if tier == "quick" else 8
	n = 32 if tier == "quick" else 400
	for rep in range(reps):
		for scen in SCENARIOS:
			for bw in (0, 1, 2):
				nj = 2 + u % 3
				units.append({"cls": "gen", "scen": scen, "bw": bw, "nj": nj,
					"u": u, "n": n, "seed": seed, "big": int(tier != "quick"
					and rep % 2 == 1), "weight": n + 10 * nj})
				u += 1
		if rep % 2 == 0:
			for bw in (0, 1):
				units.append({"cls": "gen", "scen": "topwidth", "bw": bw,
					"nj": 1, "u": u, "n": n // 2, "seed": seed, "big": 0,
					"weight": n // 2})
				u += 1
	for bw in (1, 2, 0):
		units.append({"cls": "gen", "scen": "mixed", "bw": bw, "nj": 2, "u": u,
			"n": 3 if tier == "quick" else 16, "seed": seed, "big": 2,
			"weight": 60})
		u += 1
	units.append({"cls": "explicit", "weight": 30})
	return units


def run_unit(unit, rec):
	if unit["cls"] == "explicit":
		try:
			for name, spec in sorted(explicit_specs().items()):
				run_case("explicit/" + name, {"spec": spec}, rec)
		finally:
			shutdown_pool()
		return
	cls = unit["scen"] + BWNAME[unit["bw"]] + ("/long-chromosome"
		if unit.get("big") == 2 else "")
	try:
		for k in range(unit["n"]):
			run_case(cls, {"seed": unit["seed"], "u": unit["u"], "k": k,
				"scen": unit["scen"], "bw": unit["bw"], "nj": unit["nj"]
				if k % 4 == 0 else 1, "big": unit.get("big", 0)}, rec)
	finally:
		if unit["nj"] > 1:
			shutdown_pool()
