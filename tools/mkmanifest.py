#!/venv/bin/python
"""Regenerates /verif/MANIFEST.json from the property modules that exist
(vf/props/cNN.py) and validates it against the schema.  Properties without a
module are listed under not_applicable with the reason given in NOT_APPLICABLE
below (or 'check not built yet')."""

import importlib
import json
import os
import subprocess
import sys

HERE = os.path.dirname(os.path.dirname(os.path.abspath(__file__)))
sys.path.insert(0, HERE)

ENGINES = {
	"api-oracle": ("vf/props", "reference-model oracles at the API boundary "
		"over enumerated and seeded workloads; immutability monitor"),
	"dls-monitor": ("vf/props", "DeepLIFT/SHAP monitors: completeness, "
		"independent rescale-rule reference, batching differential"),
	"failpoints": ("vf/monitors.py", "fault enumeration: event failpoints and "
		"sys.monitoring line failpoints with a model audit after every "
		"return or raise; call histories on a shared model"),
	"numba-kernels": ("vf/props", "numba kernels under bounds checking, "
		"poison/red-zone differentials, thread-schedule differentials and "
		"per-thread trace hooks"),
}
ENGINE_OF = {}
for p in ("C01 C02 C03 C08 C09 C10 C15 C16 C17 C18 C19 C20").split():
	ENGINE_OF[p] = "api-oracle"
for p in ("C04 C05 C06").split():
	ENGINE_OF[p] = "dls-monitor"
ENGINE_OF["C07"] = "failpoints"
for p in ("C11 C12 C13 C14").split():
	ENGINE_OF[p] = "numba-kernels"

NOT_APPLICABLE = {}


def main():
	props = [json.loads(l) for l in open(os.path.join(HERE,
		"properties.jsonl"))]
	checks, na = [], []
	for p in props:
		pid = p["id"]
		path = os.path.join(HERE, "vf", "props", pid.lower() + ".py")
		if not os.path.exists(path) or pid in NOT_APPLICABLE:
			na.append({"property_id": pid, "reason": NOT_APPLICABLE.get(pid,
				"check not built yet (runtime monitor planned in DESIGN.md "
				"section 3)")})
			continue
		mod = importlib.import_module("vf.props." + pid.lower())
		checks.append({
			"property_id": pid,
			"quick_cmd": "./check %s quick" % pid,
			"thorough_cmd": "./check %s thorough" % pid,
			"evidence_file": "evidence/%s.json" % pid,
			"replay_cmd_template": "./check %s quick --replay {path}" % pid,
			"engine": ENGINE_OF[pid],
			"level_claimed": {
				"category": mod.LEVEL,
				"text": getattr(mod, "LEVEL_TEXT", "The real functions are "
					"executed on enumerated small scopes and seeded hostile "
					"workloads while an oracle independent of the "
					"implementation judges every observed return value / "
					"exception; the verdict is 'held on the executions "
					"observed', with counts of what was observed in the "
					"evidence."),
				"design_ref": "DESIGN.md section 3, " + pid,
			},
			"level_note": getattr(mod, "LEVEL_NOTE", "Trusted: the harness "
				"oracle (independent reference code under vf/), torch/numpy "
				"arithmetic, and that the generated workload classes are "
				"representative; nothing is claimed about inputs or schedules "
				"that were not executed."),
			"technique": getattr(mod, "TECHNIQUE", "runtime monitoring: "
				"reference-model oracle at the API boundary over enumerated + "
				"seeded workloads"),
		})
	hooks_commits = []
	hp = os.path.join(HERE, "hooks_commits.txt")
	if os.path.exists(hp):
		hooks_commits = [l.split()[0] for l in open(hp) if l.strip()]
	man = {
		"version": 1,
		"setup_cmd": "mkdir -p .work evidence replays",
		"hooks": {
			"guard": "TANGERMEME_VERIF",
			"enable": "environment variable TANGERMEME_VERIF=1, exported by "
				"./check before the package is imported (the hooks are "
				"module-level constants read at import; off = dead branches)",
			"baseline_off_cmd": "cd /repo && env -u TANGERMEME_VERIF "
				"/venv/bin/python -m pytest -ra -q -p no:cacheprovider "
				"--timeout=900 --continue-on-collection-errors",
			"source_commits": hooks_commits,
			"add_only": True,
		},
		"engines": [{"name": k, "path": v[0], "kind_free_text": v[1],
			"serves_properties": sorted(p for p, e in ENGINE_OF.items()
				if e == k and any(c["property_id"] == p for c in checks))}
			for k, v in ENGINES.items()],
		"checks": checks,
		"not_applicable": na,
		"notes": "All checks are runtime monitors of the real code (see "
			"DESIGN.md).  ./check <ID> <tier> honours VERIF_SEED and "
			"VERIF_REPO (tree to test, default /repo).  Exit 2 + a line "
			"'INCONCLUSIVE property=<id> ...' means a required monitor "
			"observed nothing.",
	}
	out = os.path.join(HERE, "MANIFEST.json")
	with open(out, "w") as fh:
		json.dump(man, fh, indent=1)
	r = subprocess.run(["python3-vt", "-c", "import json,jsonschema;"
		"jsonschema.validate(json.load(open('%s')),json.load(open("
		"'/root/.vp/MANIFEST.schema.json')));print('MANIFEST valid: %d checks, "
		"%d not_applicable')" % (out, len(checks), len(na))])
	return r.returncode


if __name__ == "__main__":
	sys.exit(main())
