"""C12  FIMO reports exactly the windows above threshold, both strands, with
correct fields.

Monitors at the API boundary of tools.fimo.fimo (tensor and FASTA input, dim 0
and 1, return_counts, numba thread counts, omp and workqueue layers) plus two
sanitizer-style instruments applied from the harness by wrapping the module
global fimo._fast_hits (nothing in the repository is edited):
  * py-mode: the kernel's pure-Python body (.py_func) is executed, so every
    array access is bounds-checked by numpy (an out-of-range read raises);
  * red-zone differential: the sequence array is handed to the compiled kernel
    as a view into a larger buffer whose padding is -1 in one run and random
    characters in the other; a read past either end changes scores/hits.
Oracle: a pure-Python scanner over every start 0..L-w of every sequence on both
strands, with thresholds and p-values from the exact integer-count tail tables
of vf/refs/fimo_ref.py.
"""

import math
import os
import time
import shutil
import tempfile

import numpy
import torch

from .. import gen
from ..refs import fimo_ref as fr

ID = "C12"
LEVEL = "exploration"
REPLAY_ENV = {"NUMBA_NUM_THREADS": "16"}
RULE = ("one case = one fimo() scan (1-8 motifs of width 2-20, 1-6 sequences "
	"of length 1-200 incl. shorter than / equal to the motif, consensus "
	"planted at offsets incl. 0 and L-w, N runs, threshold 1e-1..1e-6, bin "
	"size, rc on/off) checked window by window against the reference "
	"scanner, and re-run as FASTA / dim=1 / return_counts / other thread "
	"counts / py-mode / red-zone variants that must describe the same hit "
	"set.  Non-trivial = the reference hit set is non-empty AND (a hit lies "
	"in the first or last window of a sequence, or a sequence has L <= w, "
	"or an N lies inside a hit window); distinct = distinct scans.")
ASSUMPTIONS = [
	"score threshold = (first bin whose exact tail probability is below the "
	"p-value threshold) * bin_size, compared with strict '>'; windows whose "
	"score is within 2e-5 of it are excluded from the must-hit / "
	"must-not-hit sets (the implementation stores the threshold as float32)",
	"the reported p-value must be the exact-table entry of floor(score/bin) "
	"or of the neighbouring bin (the statement does not fix how a real "
	"score is mapped to its integer bin) and must be below the threshold",
	"a motif whose exact tail probability at the threshold bin is within "
	"1e-9 (log2) of the p-value threshold is skipped (inconclusive)",
	"scores compared at 1e-9 (the kernel is compiled with fastmath)",
]
REQUIRED = {"fasta_path_reused_calls": 20, "many_sequence_calls": 1, "motifs_with_p_exactly_equal_to_threshold": 3,
	"history_followup_calls": 20, "reference_hits": 200, "hits_in_last_window": 10,
	"hits_in_first_window": 10, "thread_variants": 5, "fasta_variants": 5}
TECHNIQUE = ("runtime monitoring: pure-Python reference scanner + exact tail "
	"tables vs every observed fimo() result; differential monitors over "
	"input form, grouping, thread count, threading layer; numpy "
	"bounds-checked py-mode kernel and red-zone differential")
TIMEOUT = {"quick": 900, "thorough": 7200}


def make_motifs(r, nr, n_motifs, exact=False):
	motifs = {}
	for i in range(n_motifs):
		w = r.choice([2, 3, 4, 5, 6, 8, 10, 12, 15, 20])
		kind = r.choice(["sharp", "sharp", "medium", "flat"])
		if exact:
			w, kind = r.choice([2, 3, 4, 5, 6, 8]), "sharp"
		alpha = {"sharp": 0.1, "medium": 0.5, "flat": 3.0}[kind]
		pwm = nr.dirichlet([alpha] * 4, size=w).T
		pwm = numpy.round(pwm, 6)
		pwm = pwm / pwm.sum(axis=0, keepdims=True)
		motifs["m%d_%s" % (i, "".join(r.choice("xyz") for _ in range(3)))] = \
			pwm
	return motifs


def consensus(pwm):
	return "".join(fr.ALPHA[int(a)] for a in pwm.argmax(axis=0))


def make_case(params):
	r = gen.pyrng("C12", params["cseed"])
	nr = gen.nprng("C12", params["cseed"])
	motifs = make_motifs(r, nr, 1 if params.get("exact_threshold")
		else params["n_motifs"], exact=bool(params.get("exact_threshold")))
	names = list(motifs)
	seqs = []
	equal = params["equal_length"]
	L0 = r.choice([1, 2, 5, 8, 12, 20, 30, 60, 120, 200])
	if params.get("max_len"):
		L0 = min(L0, params["max_len"])
	if params.get("many_seqs"):
		L0 = r.choice([8, 12, 20])
	for i in range(params["n_seqs"]):
		L = L0 if equal else r.choice([1, 3, 6, 10, 20, 21, 40, 80, 200])
		s = list(gen.rand_seq(r, L))
		# plant consensus (or its reverse complement) of some motifs
		for _ in range(r.randint(0, 3)):
			m = motifs[r.choice(names)]
			w = m.shape[1]
			if w > L:
				continue
			c = consensus(m)
			if r.random() < 0.4:
				c = fr.revcomp(c)
			off = r.choice([0, L - w, L - w, 0, r.randint(0, L - w)])
			s[off:off + w] = list(c)
		if r.random() < 0.3 and L >= 4:
			a = r.randint(0, L - 1)
			for j in range(a, min(L, a + r.randint(1, 3))):
				s[j] = "N"
		seqs.append("".join(s))
	return motifs, seqs


def reference_hits(motifs, seqs, params):
	"""-> (must, may, skip_motifs): dicts keyed by (motif_idx, seq_idx, start,
	strand) -> (score, end, allowed log2 p-values)"""
	bin_size, eps, thr = params["bin"], params["eps"], params["threshold"]
	log_thr = math.log2(thr)
	must, may = {}, {}
	skipped = set()
	exact_eq = params.setdefault("_exact_eq", set())
	info = {}
	for mi, (name, pwm) in enumerate(motifs.items()):
		for strand in ("+", "-") if params["rc"] else ("+",):
			p = pwm if strand == "+" else fr.rc_pwm(pwm)
			lo = fr.log_odds(p, eps)
			isc = fr.int_scores(lo, bin_size)
			tlo, thi, lt = fr.exact_table(isc)
			# first integer score whose tail probability is below threshold
			below = numpy.nonzero(lt < log_thr)[0]
			if len(below):
				s0 = tlo + int(below[0])
				near = [abs(float(lt[k]) - log_thr) for k in (below[0],
					max(0, below[0] - 1))]
				# equality is only decidable when it is exact in every
				# implementation: threshold 4^-w and a unique top-scoring
				# sequence (the tail is a single term, log2 p = -2w exactly)
				if min(near) < 1e-9:
					skipped.add(mi)
			else:
				# no attainable score is significant: the first bin whose
				# tail probability (0) is below the threshold is max+1; a
				# real-valued score can still exceed it because the table
				# is built from rounded column scores
				s0 = thi + 1
				if abs(float(lt[-1]) - log_thr) < 1e-9:
					# p of the best sequence EQUALS the threshold.  That is
					# exact (so decidable) when the threshold is 4^-w and
					# exactly one sequence attains the top score: then the
					# top bin is "not below the threshold" and only scores
					# above (max+1)*bin may be reported.
					lo_c, counts_ = fr.exact_counts(isc)
					if not (counts_[-1] == 1 and float(lt[-1]) == log_thr
						and log_thr == -2.0 * p.shape[1]):
						skipped.add(mi)
					else:
						exact_eq.add(mi)
			T = float(numpy.float32(s0 * bin_size))
			w = p.shape[1]
			for si, seq in enumerate(seqs):
				for start, sc in enumerate(fr.window_scores(seq, lo)):
					q = sc / bin_size
					ks = {math.floor(q), math.floor(q) + 1, math.floor(q) - 1}
					allowed = []
					for k in ks:
						if k <= tlo:
							allowed.append(0.0)
						elif k > thi:
							allowed.append(-math.inf)
						else:
							allowed.append(float(lt[k - tlo]))
					key = (mi, si, start, strand)
					rec_ = (sc, start + w, allowed)
					if T != math.inf and abs(sc - T) <= 2e-5:
						may[key] = rec_
					elif sc > T:
						must[key] = rec_
					info[key] = rec_
	return must, may, skipped, info


def seq_tensor(seqs):
	return gen.ohe(seqs, dtype=torch.float32 if len(seqs) % 2 else torch.int8)


def same_table(a, b, exact=True):
	if set(a) != set(b):
		return False
	if exact:
		return a == b
	for k in a:
		(s1, e1, p1, n1), (s2, e2, p2, n2) = a[k], b[k]
		if e1 != e2 or n1 != n2 or abs(s1 - s2) > 1e-9 * max(1, abs(s2)):
			return False
		if p1 != p2 and abs(p1 - p2) > 1e-9 * max(p1, p2):
			return False
	return True


def df_rows(dfs, seq_names=None):
	out, dup = {}, 0
	for df in dfs:
		d = df.to_dict("records")
		for row in d:
			sn = row["sequence_name"]
			si = seq_names.index(sn) if seq_names is not None else int(sn)
			key = (int(row["motif_idx"]), si, int(row["start"]), row["strand"])
			if key in out:
				dup += 1
			out[key] = (float(row["score"]), int(row["end"]),
				float(row["p-value"]), row["motif_name"])
	return out, dup


def compare(rec, cls, params, got, dup, must, may, skipped, info, names, thr,
	tag):
	"""-> None if consistent, else (detail, mech)"""
	if dup:
		return ({"what": "%d duplicated hit rows (%s)" % (dup, tag)},
			"C12/duplicate-hit")
	for key, (sc, end, p, mname) in got.items():
		mi, si, start, strand = key
		if mi in skipped:
			continue
		if key not in info:
			return ({"what": "hit reported for a window that does not exist "
				"(%s)" % tag, "hit": list(key), "score": sc, "end": end},
				"C12/nonexistent-window")
		rsc, rend, allowed = info[key]
		if key not in must and key not in may:
			return ({"what": "hit reported for a window whose score is not "
				"above the threshold (%s)" % tag, "hit": list(key),
				"reported_score": sc, "reference_score": rsc},
				"C12/spurious-hit")
		if abs(sc - rsc) > 1e-9 * max(1.0, abs(rsc)):
			return ({"what": "score field wrong (%s)" % tag, "hit": list(key),
				"reported": sc, "reference": rsc}, "C12/score-field")
		if end != rend:
			return ({"what": "end field wrong (%s)" % tag, "hit": list(key),
				"reported": end, "reference": rend}, "C12/end-field")
		if mname != names[mi]:
			return ({"what": "motif_name field wrong (%s)" % tag,
				"hit": list(key), "reported": mname, "expected": names[mi]},
				"C12/name-field")
		lp = math.log2(p) if p > 0 else -math.inf
		if not any((a == lp) or (a != -math.inf and abs(a - lp) <= 1e-9)
			for a in allowed):
			return ({"what": "p-value is not the exact-table entry of the "
				"hit's score bin (%s)" % tag, "hit": list(key), "score": sc,
				"reported_p": p, "exact_p_of_neighbouring_bins":
				[2.0 ** a for a in allowed]}, "C12/p-value-field")
		if not p < thr * (1 + 1e-9) or (mi in params.get("_exact_eq", ())
			and not p < thr):
			return ({"what": "reported p-value not below the threshold (%s)"
				% tag, "hit": list(key), "p": p, "threshold": thr},
				"C12/p-value-above-threshold")
	for key in must:
		if key[0] in skipped:
			continue
		if key not in got:
			mi, si, start, strand = key
			L = params["_lens"][si]
			w = must[key][1] - start
			mech = "C12/last-window-not-scanned" if start == L - w else \
				"C12/missed-hit"
			return ({"what": "window above threshold not reported (%s)" % tag,
				"window": list(key), "score": must[key][0], "seq_len": L,
				"motif_width": w, "is_last_window": start == L - w}, mech)
	return None


def run_case(cls, params, rec):
	import numba
	from tangermeme.tools import fimo as F
	motifs, seqs = make_case(params)
	names = list(motifs)
	params = dict(params)
	if params.get("exact_threshold"):
		# threshold exactly equal to the p-value of the (unique) best
		# sequence of the motif: 4^-w
		params["threshold"] = 4.0 ** -next(iter(motifs.values())).shape[1]
		rec.count("exact_threshold_cases")
	lens = [len(s) for s in seqs]
	params["_lens"] = lens
	tm = {k: gen.relayout(torch.from_numpy(v.copy()), gen.layout_of(params,
		"pwm", k))[0] for k, v in motifs.items()}
	thr = params["threshold"]
	kw = dict(bin_size=params["bin"], eps=params["eps"], threshold=thr,
		reverse_complement=params["rc"])
	must, may, skipped, info = reference_hits(motifs, seqs, params)
	desc = {"motif_widths": [m.shape[1] for m in motifs.values()],
		"seq_lens": lens, "threshold": thr, "bin_size": params["bin"],
		"eps": params["eps"], "rc": params["rc"],
		"sequences": seqs if sum(lens) <= 400 else "cseed=%d" %
		params["cseed"]}
	pub = {k: v for k, v in params.items() if not k.startswith("_")}
	tmp = tempfile.mkdtemp(prefix="c12-", dir=os.path.join(
		os.path.dirname(os.path.dirname(os.path.dirname(os.path.abspath(
		__file__)))), ".work"))
	try:
		# FASTA file: names deliberately not in sorted order
		fnames = ["s%d_%s" % (i, "zyxwvu"[i % 6]) for i in range(len(seqs))]
		fpath = os.path.join(tmp, "seqs.fa")
		with open(fpath, "w") as fh:
			for n_, s in zip(fnames, seqs):
				body = "".join(c.lower() if (i * 7 + len(s)) % 5 == 0 else c
					for i, c in enumerate(s))
				fh.write(">%s\n" % n_)
				for i in range(0, len(body), 60):
					fh.write(body[i:i + 60] + "\n")
		equal = len(set(lens)) == 1
		variants = []
		if equal:
			variants.append(("tensor", None))
		variants.append(("fasta", None))
		nthreads = params.get("threads", [])
		base = None
		for form, _ in variants:
			src = seq_tensor(seqs) if form == "tensor" else fpath
			if form == "tensor":
				# same values as a view into a larger storage
				lay = gen.layout_of(params)
				src = gen.relayout(src, lay)[0]
				rec.setadd("layouts", lay)
			sn = None if form == "tensor" else fnames
			mon = gen.Immutable(**({"X": src} if form == "tensor" else {}),
				**{"pwm%d" % i: t for i, t in enumerate(tm.values())})
			st, val = gen.call(F.fimo, tm, src, **kw)
			if st == "raise":
				rec.violation(cls, pub, dict(desc, what="fimo raised (%s "
					"input)" % form, error=repr(val)[:300]),
					mech="C12/raised")
				return
			if mon.changed():
				rec.violation(cls, pub, dict(desc, what="caller tensors "
					"modified", tensors=mon.changed()),
					mech="C12/input-mutated")
				return
			if len(val) != len(motifs):
				rec.violation(cls, pub, dict(desc, what="%d DataFrames for "
					"%d motifs" % (len(val), len(motifs))),
					mech="C12/shape")
				return
			got, dup = df_rows(val, sn)
			bad = compare(rec, cls, params, got, dup, must, may, skipped,
				info, names, thr, form)
			if bad is not None:
				rec.violation(cls, pub, dict(desc, **bad[0]), mech=bad[1])
				return
			if form == "fasta":
				rec.count("fasta_variants")
			if base is None:
				base = got
			elif set(got) != set(base) and not (set(got) ^ set(base)) <= set(
				may):
				rec.violation(cls, pub, dict(desc, what="FASTA and tensor "
					"input give different hit sets", only_one=[list(k) for k
					in list(set(got) ^ set(base))[:5]]),
					mech="C12/fasta-tensor-differ")
				return
			# grouping by sequence and counts
			st, val1 = gen.call(F.fimo, tm, src, dim=1, **kw)
			st2, cnt = gen.call(F.fimo, tm, src, return_counts=True, **kw)
			if st == "raise":
				rec.violation(cls, pub, dict(desc, what="fimo raised with "
					"dim=1", n_hits=len(got), error=repr(val1)[:300]),
					mech="C12/dim1-raises")
				return
			if st2 == "raise":
				rec.violation(cls, pub, dict(desc, what="fimo raised with "
					"return_counts=True", error=repr(cnt)[:300]),
					mech="C12/return-counts-without-rc-raises"
					if not params["rc"] else "C12/return-counts-raises")
				return
			if st == "ok":
				got1, dup1 = df_rows(val1, sn)
				if got1 != got or dup1:
					rec.violation(cls, pub, dict(desc, what="dim=1 grouping "
						"describes a different hit set", n_dim0=len(got),
						n_dim1=len(got1)), mech="C12/dim1-differs")
					return
				for df in val1:
					if df["sequence_name"].nunique() != 1:
						rec.violation(cls, pub, dict(desc, what="a dim=1 "
							"frame mixes sequences"), mech="C12/dim1-differs")
						return
			if st2 == "ok":
				exp_cnt = [sum(1 for k in got if k[0] == mi) for mi in range(
					len(motifs))]
				if list(map(int, cnt)) != exp_cnt:
					rec.violation(cls, pub, dict(desc, what="return_counts "
						"disagrees with the hit table", counts=list(map(int,
						cnt)), expected=exp_cnt), mech="C12/counts-differ")
					return
			# thread counts: bitwise identical row sets
			for nt in nthreads:
				if nt > numba.config.NUMBA_NUM_THREADS:
					continue
				numba.set_num_threads(nt)
				st, valt = gen.call(F.fimo, tm, src, **kw)
				numba.set_num_threads(1)
				if st == "raise":
					rec.violation(cls, pub, dict(desc, what="fimo raised "
						"with %d threads" % nt, error=repr(valt)[:300]),
						mech="C12/raised")
					return
				gott, dupt = df_rows(valt, sn)
				rec.count("thread_variants")
				if gott != got or dupt:
					rec.violation(cls, pub, dict(desc, what="%d threads give "
						"a different hit table than 1 thread" % nt),
						mech="C12/thread-count-dependence")
					return
		# call history on the same motif objects: change one parameter at a
		# time, then return to the original call (state kept between calls -
		# caches keyed too coarsely, reused buffers - would show here)
		src = seq_tensor(seqs) if equal else fpath
		sn = None if equal else fnames
		r2 = gen.pyrng("C12hist", params["cseed"])
		alts = [("eps", [e for e in (1e-4, 1e-3, 1e-2, 0.1)
			if e != params["eps"]]), ("threshold", [t for t in (1e-1, 1e-2,
			1e-3, 1e-4) if t != thr]), ("bin", [b for b in (0.05, 0.1, 0.25,
			0.5) if b != params["bin"]])]
		r2.shuffle(alts)
		for field, choices in alts[:0 if params.get("exact_threshold")
			else params.get("n_history", 2)]:
			p2 = dict(params)
			p2[field] = r2.choice(choices)
			kw2 = dict(bin_size=p2["bin"], eps=p2["eps"],
				threshold=p2["threshold"], reverse_complement=p2["rc"])
			must2, may2, skipped2, info2 = reference_hits(motifs, seqs, p2)
			st, val = gen.call(F.fimo, tm, src, **kw2)
			if st == "raise":
				rec.violation(cls, pub, dict(desc, what="fimo raised on a "
					"follow-up call with %s=%s" % (field, p2[field]),
					error=repr(val)[:300]), mech="C12/raised")
				return
			got2, dup2 = df_rows(val, sn)
			bad = compare(rec, cls, p2, got2, dup2, must2, may2, skipped2,
				info2, names, p2["threshold"], "follow-up call with %s=%s "
				"after %s=%s on the same motifs" % (field, p2[field], field,
				params[field]))
			rec.count("history_followup_calls")
			if bad is not None:
				rec.violation(cls, pub, dict(desc, **bad[0]),
					mech="C12/call-history-dependence")
				return
		st, val = gen.call(F.fimo, tm, src, **kw)
		if st == "raise" or not same_table(df_rows(val, sn)[0], base if equal
			else got, exact=True):
			rec.violation(cls, pub, dict(desc, what="repeating the original "
				"call after other calls gives a different hit table"),
				mech="C12/call-history-dependence")
			return
		# call history on the same FASTA PATH: the file is replaced by other
		# records (other names, lengths and order, clearly newer time stamp);
		# whatever an earlier call derived from the old file (an index next
		# to it) must not be trusted
		if len(seqs) <= 50 and not params.get("exact_threshold"):
			seqs2 = [s[::-1] + "AC" for s in seqs[::-1]] + [seqs[0]]
			fnames2 = ["r%d_%s" % (i, "abcdef"[i % 6]) for i in range(len(
				seqs2))]
			with open(fpath, "w") as fh:
				for n_, s_ in zip(fnames2, seqs2):
					fh.write(">%s\n%s\n" % (n_, s_))
			tnew = time.time() + 5
			os.utime(fpath, (tnew, tnew))
			must3, may3, skipped3, info3 = reference_hits(motifs, seqs2,
				params)
			st, val = gen.call(F.fimo, tm, fpath, **kw)
			rec.count("fasta_path_reused_calls")
			if st == "raise":
				rec.violation(cls, pub, dict(desc, what="fimo raised on a "
					"FASTA path whose content was replaced",
					error=repr(val)[:300]), mech="C12/raised")
				return
			try:
				got3, dup3 = df_rows(val, fnames2)
				bad = compare(rec, cls, params, got3, dup3, must3, may3,
					skipped3, info3, names, thr, "FASTA path scanned before "
					"with other content")
			except ValueError as e:
				bad = ({"what": "a hit names a sequence that is not in the "
					"file any more (FASTA path scanned before with other "
					"content): %s" % str(e)[:100]}, "C12/stale-file-state")
			if bad is not None:
				rec.violation(cls, pub, dict(desc, **bad[0]),
					mech="C12/stale-file-state")
				return
		# sanitizer-style instruments on the kernel
		if params.get("instrument") and equal and sum(lens) <= 400:
			src = seq_tensor(seqs)
			orig = F._fast_hits
			for mode in params["instrument"]:
				got_m = []
				if mode == "pymode" and min(lens) < max(m.shape[1] for m in
					motifs.values()):
					# unsigned arithmetic of the window count is only
					# meaningful in compiled mode when L < w
					rec.count("pymode_skipped_short_sequence")
					continue
				for variant in ((0,) if mode == "pymode" else (0, 1)):
					def wrapper(*a, _mode=mode, _v=variant):
						a = list(a)
						if _mode == "pymode":
							return orig.py_func(*a)
						# red zone: first 1-D int8 array is the sequence
						for i, x in enumerate(a):
							if isinstance(x, numpy.ndarray) and x.ndim == 1 \
								and x.dtype == numpy.int8:
								pad = 64
								big = numpy.full(len(x) + 2 * pad, -1,
									dtype=numpy.int8)
								if _v == 1:
									big[:] = gen.nprng("rz", params[
										"cseed"]).integers(0, 4, len(big))
								big[pad:pad + len(x)] = x
								a[i] = big[pad:pad + len(x)]
								break
						return orig(*a)
					F._fast_hits = wrapper
					try:
						st, valm = gen.call(F.fimo, tm, src, **kw)
					finally:
						F._fast_hits = orig
					if st == "raise":
						rec.violation(cls, pub, dict(desc, what="kernel "
							"raised in %s run" % mode, error=repr(valm)[
							:300]), mech="C12/out-of-bounds-read"
							if isinstance(valm, IndexError) else "C12/raised")
						return
					g, d = df_rows(valm, None)
					got_m.append(g)
				rec.count("instrument_runs:" + mode)
				for g in got_m:
					if not same_table(g, base, exact=(mode != "pymode")):
						rec.violation(cls, pub, dict(desc, what="%s run "
							"gives a different hit table (read outside the "
							"sequence array?)" % mode),
							mech="C12/out-of-bounds-read")
						return
		# mirror property
		if params["rc"] and params.get("mirror", True):
			rseqs = [fr.revcomp(s) for s in seqs]
			if equal:
				src = seq_tensor(rseqs)
				sn = None
			else:
				with open(fpath, "w") as fh:
					for n_, s in zip(fnames, rseqs):
						fh.write(">%s\n%s\n" % (n_, s))
				fai = fpath + ".fai"
				if os.path.exists(fai):
					os.remove(fai)
				src, sn = fpath, fnames
			st, valr = gen.call(F.fimo, tm, src, **kw)
			if st == "raise":
				rec.violation(cls, pub, dict(desc, what="fimo raised on the "
					"reverse-complemented sequences", error=repr(valr)[:300]),
					mech="C12/raised")
				return
			gotr, _ = df_rows(valr, sn)
			for key, (sc, end, p, mname) in base.items():
				mi, si, start, strand = key
				if mi in skipped or key in may:
					continue
				mk = (mi, si, lens[si] - end, "-" if strand == "+" else "+")
				if mk not in gotr:
					if any(k[:3] == mk[:3] for k in may):
						continue
					rec.violation(cls, pub, dict(desc, what="mirror image of "
						"a hit missing when the reverse complement is "
						"scanned", hit=list(key), expected_mirror=list(mk)),
						mech="C12/last-window-not-scanned" if (start == 0 or
						end == lens[si]) else "C12/mirror")
					return
				sc2, end2, p2, _ = gotr[mk]
				if abs(sc2 - sc) > 1e-9 * max(1, abs(sc)) or p2 != p:
					if abs(sc2 - sc) <= 1e-9 * max(1, abs(sc)) and abs(
						math.log2(p2) - math.log2(p)) < 1e-9:
						continue
					rec.violation(cls, pub, dict(desc, what="mirror hit has "
						"another score/p-value", hit=list(key), score=sc,
						mirror_score=sc2, p=p, mirror_p=p2),
						mech="C12/mirror")
					return
			rec.count("mirror_checks")
	finally:
		shutil.rmtree(tmp, ignore_errors=True)
	# evidence counters
	nref = len(must)
	rec.count("reference_hits", nref)
	rec.count("motifs_with_p_exactly_equal_to_threshold", len(params.get(
		"_exact_eq", ())))
	first = sum(1 for k in must if k[2] == 0)
	last = sum(1 for k in must if must[k][1] == lens[k[1]])
	rec.count("hits_in_first_window", first)
	rec.count("hits_in_last_window", last)
	widths = [m.shape[1] for m in motifs.values()]
	shortseq = any(L <= w for L in lens for w in widths)
	n_in_hit = any("N" in seqs[k[1]][k[2]:must[k][1]] for k in must)
	rec.count("windows_in_ambiguity_band", len(may))
	if skipped:
		rec.count("motifs_skipped_threshold_ambiguous", len(skipped))
	rec.held(cls, pub, nontrivial=nref > 0 and (first > 0 or last > 0 or
		shortseq or n_in_hit))


def gen_params(seed, k, tier):
	r = gen.pyrng("C12p", seed, k)
	return {"cseed": r.randrange(10 ** 9), "n_motifs": r.randint(1, 8),
		"n_seqs": r.randint(1, 6), "equal_length": r.random() < 0.6,
		"threshold": r.choice([1e-1, 1e-2, 1e-3, 1e-3, 1e-4, 1e-4, 1e-5,
		1e-6]), "bin": r.choice([0.05, 0.1, 0.1, 0.25, 0.5]),
		"eps": r.choice([1e-4, 1e-4, 1e-3, 1e-2]), "rc": r.random() < 0.7,
		"exact_threshold": k % 10 == 9}


def plan(tier, seed):
	n = 160 if tier == "quick" else 10000
	per = 5 if tier == "quick" else 100
	units = []
	for i, k0 in enumerate(range(0, n, per)):
		u = {"cls": "scan", "k0": k0, "k1": min(n, k0 + per), "seed": seed,
			"tier": tier, "weight": per, "mode": "plain"}
		if i % 4 == 1:
			u["mode"] = "threads"
			u["env"] = {"NUMBA_NUM_THREADS": "16"}
		elif i % 4 == 2:
			u["mode"] = "instrument"
		elif i % 8 == 7:
			u["mode"] = "threads"
			u["env"] = {"NUMBA_NUM_THREADS": "8",
				"NUMBA_THREADING_LAYER": "workqueue"}
		units.append(u)
	# more sequences in one call than any block / counter size in use
	for j in range(1 if tier == "quick" else 8):
		units.append({"cls": "scan", "k0": 10 ** 6 + j, "k1": 10 ** 6 + j + 1,
			"seed": seed, "tier": tier, "weight": 12, "mode": "many"})
	return units


def run_unit(unit, rec):
	for k in range(unit["k0"], unit["k1"]):
		params = gen_params(unit["seed"], k, unit["tier"])
		cls = "scan"
		if unit["mode"] == "many":
			r = gen.pyrng("C12many", unit["seed"], k)
			params.update(many_seqs=True, equal_length=True,
				n_seqs=r.choice([4097, 4500, 8193, 4096 + r.randint(2, 900)]),
				n_motifs=r.randint(1, 2), exact_threshold=False,
				threshold=r.choice([1e-2, 1e-3]))
			cls = "scan-many-sequences"
			rec.count("many_sequence_calls")
		if unit["mode"] == "threads":
			import numba
			r = gen.pyrng("C12t", unit["seed"], k)
			params["threads"] = sorted({r.randint(2, 16), 2, 16})
			cls = "scan-threads-" + (unit.get("env", {}).get(
				"NUMBA_THREADING_LAYER", "default"))
			rec.setadd("threading_layers", numba.config.THREADING_LAYER)
		elif unit["mode"] == "instrument":
			params["equal_length"] = True
			params["instrument"] = ["pymode", "redzone"]
			params["max_len"] = 60
			cls = "scan-instrumented"
		run_case(cls, params, rec)
