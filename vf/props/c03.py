"""C03  predict is transparent to batching and keeps extra arguments aligned.

Monitor: a recording exact-arithmetic model built by the harness.  Every
example carries its index in its one-hot pattern and every extra argument row
carries the same index; forward() logs, for each invocation, which example
indices and which argument-row indices it received, self.training and
torch.is_grad_enabled().  The event log is checked offline (the batches
partition 0..n-1 in order, every argument window equals the X window, every
event in eval mode with gradients disabled) and the returned value is compared
bit-for-bit with a per-example loop.  A Dropout+BatchNorm model makes
train/eval mode observable in the values themselves.
"""

import numpy
import torch

from .. import gen

ID = "C03"
LEVEL = "exploration"
RULE = ("one case = one predict() call for (n examples, batch_size, number of "
	"extra args, output kind, X dtype, model kind).  All n in 1..N and all "
	"batch sizes 1..n+3 are enumerated with every args-count/output-kind "
	"combination.  Non-trivial = batch_size does not divide n, or exceeds n, "
	"or extra args are present; distinct = distinct tuples.")
ASSUMPTIONS = ["device='cpu'", "batch_size >= 1"]
REQUIRED = {"forward_events": 100, "mismatch_cases": 5}

A, L = 4, 6


def make_X(n, dtype=torch.int8):
	idx = numpy.zeros((n, L), dtype=numpy.int64)
	for i in range(n):
		v = i
		for p in range(L):
			idx[i, p] = v % A
			v //= A
	a = (idx[:, None, :] == numpy.arange(A)[None, :, None]).astype(numpy.int8)
	return torch.from_numpy(a).type(dtype)


def ids_of_X(X):
	x = X.detach().to(torch.int64)
	digits = x.argmax(dim=1)
	w = torch.tensor([A ** p for p in range(L)], dtype=torch.int64)
	return (digits * w).sum(dim=1).tolist()


def make_args(n, k):
	out = []
	for j in range(k):
		shape = [(n, 1), (n, 2), (n, 2, 2)][j % 3]
		base = torch.arange(n, dtype=torch.float64).reshape(n, *([1] * (
			len(shape) - 1)))
		out.append((base * 1000 + j).expand(*shape).contiguous())
	return out


def ids_of_arg(a, j):
	flat = a.detach().reshape(a.shape[0], -1)[:, 0]
	return [int(round((float(v) - j) / 1000)) for v in flat]


class RecModel(torch.nn.Module):
	def __init__(self, kind, with_param=True):
		super().__init__()
		self.kind = kind
		if with_param:
			self.p = torch.nn.Parameter(torch.ones(1, dtype=torch.float64))
		self.register_buffer("W", torch.arange(1, A * L * 3 + 1,
			dtype=torch.float64).reshape(3, A, L))
		self.log = []

	def forward(self, X, *args):
		lim = getattr(self, "oom_limit", None)
		if lim is not None and X.shape[0] > lim:
			# a batch that does not fit: what predict may do is re-raise -
			# or anything that still returns the exact concatenation
			raise torch.cuda.OutOfMemoryError("simulated: %d rows > %d" % (
				X.shape[0], lim))
		self.log.append({"x": ids_of_X(X),
			"args": [ids_of_arg(a, j) for j, a in enumerate(args)],
			"training": self.training, "grad": torch.is_grad_enabled(),
			"xdtype": str(X.dtype)})
		x = X.to(torch.float64)
		y = torch.einsum("bal,kal->bk", x, self.W)
		for j, a in enumerate(args):
			y = y + (j + 1) * a.reshape(a.shape[0], -1).sum(dim=1,
				keepdim=True).to(torch.float64)
		if self.kind == "tensor":
			return y
		if self.kind == "tuple":
			return y, (y * 2)[:, :2, None].expand(-1, -1, 2)
		if self.kind == "list":
			return [y[:, 0], y + 1, y[:, 1:]]
		if self.kind == "view":
			# outputs that are views of the (possibly cast) input batch
			return (y, X, X[:, :, 1:3], X.permute(0, 2, 1))
		if self.kind == "mixed":
			# outputs of several dtypes: exact concatenation keeps each
			return (y.to(torch.float32), (y * 1048577).to(torch.int64),
				y[:, 0] > 150, y)
		raise AssertionError


class BNModel(torch.nn.Module):
	def __init__(self, seed):
		super().__init__()
		g = torch.Generator().manual_seed(seed)
		self.conv = torch.nn.Conv1d(A, 5, 3, dtype=torch.float64)
		self.bn = torch.nn.BatchNorm1d(5, dtype=torch.float64)
		self.drop = torch.nn.Dropout(0.5)
		self.lin = torch.nn.Linear(5 * (L - 2), 2, dtype=torch.float64)
		with torch.no_grad():
			for p in self.parameters():
				p.copy_(torch.randn(p.shape, generator=g, dtype=torch.float64))
			self.bn.running_mean.copy_(torch.randn(5, generator=g,
				dtype=torch.float64))
			self.bn.running_var.copy_(torch.rand(5, generator=g,
				dtype=torch.float64) + 0.5)
		self.modes = []

	def forward(self, X, *args):
		self.modes.append((self.training or self.bn.training or
			self.drop.training, torch.is_grad_enabled()))
		h = self.drop(self.bn(self.conv(X)))
		y = self.lin(h.flatten(1))
		for a in args:
			y = y + a.reshape(a.shape[0], -1)[:, :1]
		return y


def per_example(model, X, args, dtype):
	model.eval()
	outs = []
	with torch.no_grad():
		for i in range(X.shape[0]):
			xa = [a[i:i + 1] for a in args]
			outs.append(model(X[i:i + 1].type(dtype), *xa))
	if isinstance(outs[0], torch.Tensor):
		return torch.cat(outs)
	return [torch.cat([o[k] for o in outs]) for k in range(len(outs[0]))]


def same(y, ref, exact=True):
	if isinstance(ref, torch.Tensor):
		if not isinstance(y, torch.Tensor) or y.shape != ref.shape or \
			y.dtype != ref.dtype:
			return False
		return torch.equal(y, ref) if exact else torch.allclose(y, ref,
			rtol=1e-11, atol=1e-11)
	if not isinstance(y, (list, tuple)) or len(y) != len(ref):
		return False
	return all(same(a, b, exact) for a, b in zip(y, ref))


def run_case(cls, params, rec):
	from tangermeme.predict import predict
	n, b, k = params["n"], params["batch_size"], params["n_args"]
	kind = params["kind"]
	xd = {"int8": torch.int8, "float32": torch.float32,
		"float64": torch.float64}[params.get("xdtype", "int8")]
	X = make_X(n, xd)
	args = make_args(n, k)
	mis = params.get("mismatch")
	if mis is not None:
		j, delta = mis
		m = n + delta
		args[j] = make_args(max(m, 0), k)[j] if m > 0 else args[j][:0]
	nontriv = (n % b != 0) or b > n or k > 0
	# the kind of object that carries the batch size (a value read from a
	# config array or tensor); the object itself must come back unchanged
	bkind = params.get("bkind") or ["int", "int", "npint", "np0d", "t0d"][
		gen.pyrng("C03bkind", repr(sorted((k_, repr(v_)) for k_, v_ in
		params.items() if k_ not in ("layout", "bkind")))).randrange(5)]
	params = dict(params, bkind=bkind)
	b_int = b
	b = {"int": lambda: b_int, "npint": lambda: numpy.int64(b_int),
		"np0d": lambda: numpy.array(b_int),
		"t0d": lambda: torch.tensor(b_int)}[bkind]()
	rec.setadd("batch_size_kinds", bkind)
	# the same values in another memory layout (non-contiguous, storage
	# offset, strided); the surrounding storage is watched as well
	params, X, xbase = gen.apply_layout(params, rec, X)
	bases = {"Xbase": xbase}
	for j in range(len(args)):
		_, args[j], bases["argbase%d" % j] = gen.apply_layout(params, rec,
			args[j], "arg", j)

	if kind == "bn":
		model = BNModel(params.get("mseed", 0))
		state = params.get("start_state", "train")
		if state == "train":
			model.train()
		elif state == "eval":
			model.eval()
		elif state == "mixed-dropout":     # the MC-dropout idiom
			model.eval()
			model.drop.train()
		else:                              # "mixed-bn"
			model.eval()
			model.bn.train()
		rec.setadd("bn_model_start_states", state)
		torch.set_grad_enabled(True)
		Xf = X.type(torch.float64)
		if Xf is not X:
			Xf, bases["Xbase"] = gen.relayout(Xf, params["layout"])
		mon = gen.Immutable(X=Xf, **bases, **{"arg%d" % j: a for j, a in
			enumerate(args)})
		sd = {kk: v.clone() for kk, v in model.state_dict().items()}
		st, y = gen.call(predict, model, Xf, args=tuple(args) if k else None,
			batch_size=b, device="cpu")
		if st == "raise":
			if bkind != "int":
				# only Python ints are documented batch sizes: refusing
				# another kind of object is in order, mis-using it is not
				rec.refusal(cls, params, "batch_size given as %s refused" %
					bkind)
				return
			rec.violation(cls, params, {"what": "predict raised",
				"error": repr(y)[:300]}, mech="C03/raised")
			return
		modes = list(model.modes)
		bad = [m for m in modes if m != (False, False)]
		if bad:
			rec.violation(cls, params, {"what": "forward executed with "
				"(training, grad_enabled) = %s" % (bad[0],)},
				mech="C03/mode")
			return
		for kk, v in model.state_dict().items():
			if not torch.equal(v, sd[kk]):
				rec.violation(cls, params, {"what": "buffer/parameter %s "
					"changed (batch-norm statistics updated?)" % kk},
					mech="C03/mode")
				return
		ref = per_example(model, Xf, args, torch.float64)
		if not same(y, ref, exact=False):
			rec.violation(cls, params, {"what": "output differs from "
				"per-example eval-mode forward", "max_abs_diff": float((y -
				ref).abs().max()) if isinstance(y, torch.Tensor) and y.shape
				== ref.shape else None}, mech="C03/values")
			return
		if mon.changed():
			rec.violation(cls, params, {"what": "caller tensors modified",
				"tensors": mon.changed()}, mech="C03/input-mutated")
			return
		rec.count("forward_events", len(modes))
		rec.held(cls, params, nontrivial=nontriv)
		return

	model = RecModel(kind, with_param=params.get("with_param", True))
	if params.get("oom_limit"):
		model.oom_limit = params["oom_limit"]
	model.train()
	mon = gen.Immutable(X=X, **bases, **{"arg%d" % j: a for j, a in
		enumerate(args)})
	argv = None if k == 0 else (tuple(args) if params.get("args_tuple", True)
		else list(args))
	st, y = gen.call(predict, model, X, args=argv, batch_size=b, device="cpu")
	if mon.changed():
		rec.violation(cls, params, {"what": "caller tensors modified",
			"tensors": mon.changed()}, mech="C03/input-mutated")
		return
	if mis is not None:
		rec.count("mismatch_cases")
		if st == "ok":
			rec.violation(cls, params, {"what": "args entry %d with leading "
				"dimension %d accepted for %d examples" % (mis[0], n + mis[1],
				n)}, mech="C03/mismatch-accepted")
		else:
			rec.held(cls, params, nontrivial=True)
		return
	if st == "raise":
		if params.get("oom_limit") and isinstance(y,
			torch.cuda.OutOfMemoryError):
			rec.refusal(cls, params, "out-of-memory error propagated")
			rec.count("oom_propagated")
			return
		if params.get("bkind") != "int":
			# only Python ints are documented batch sizes: refusing another
			# kind of object is in order, mis-using it is not
			rec.refusal(cls, params, "batch_size given as %s refused" %
				params["bkind"])
			return
		rec.violation(cls, params, {"what": "predict raised",
			"error": repr(y)[:300]}, mech="C03/raised")
		return
	if params.get("oom_limit"):
		model.oom_limit = None
	log = model.log
	rec.count("forward_events", len(log))
	seen = []
	for ev in log:
		if ev["training"] or ev["grad"]:
			rec.violation(cls, params, {"what": "forward executed with "
				"training=%s grad_enabled=%s" % (ev["training"], ev["grad"])},
				mech="C03/mode")
			return
		for j, ai in enumerate(ev["args"]):
			if ai != ev["x"]:
				rec.violation(cls, params, {"what": "argument %d rows %s "
					"passed with examples %s" % (j, ai, ev["x"])},
					mech="C03/args-misaligned")
				return
		if len(ev["args"]) != k:
			rec.violation(cls, params, {"what": "forward received %d extra "
				"args, expected %d" % (len(ev["args"]), k)},
				mech="C03/args-misaligned")
			return
		seen.extend(ev["x"])
	if seen != list(range(n)):
		rec.violation(cls, params, {"what": "examples forwarded: %s (expected "
			"0..%d once each, in order)" % (seen[:50], n - 1)},
			mech="C03/partition")
		return
	dtype = torch.float64 if params.get("with_param", True) else xd
	model.log = []
	ref = per_example(model, X, args, dtype)
	if not same(y, ref):
		rec.violation(cls, params, {"what": "return value differs from the "
			"per-example loop", "type": type(y).__name__},
			mech="C03/values")
		return
	rec.setadd("batch_counts", len(log))
	rec.held(cls, params, nontrivial=nontriv)


def plan(tier, seed):
	N = 16 if tier == "quick" else 40
	units = []
	for n in range(1, N + 1):
		units.append({"cls": "grid", "n": n, "weight": n})
	units.append({"cls": "mismatch", "N": N, "weight": 5})
	units.append({"cls": "oom", "N": N, "weight": 5})
	for n in range(1, N + 1, 3 if tier == "quick" else 1):
		units.append({"cls": "bn", "n": n, "seed": seed, "weight": n})
	return units


def run_unit(unit, rec):
	if unit["cls"] == "grid":
		n = unit["n"]
		c = 0
		for b in range(1, n + 4):
			for k in range(0, 4):
				for kind in ("tensor", "tuple", "list", "mixed", "view"):
					c += 1
					run_case("grid", {"n": n, "batch_size": b, "n_args": k,
						"kind": kind, "xdtype": ("int8", "float32",
						"float64")[(c // 5) % 3], "with_param": (c // 15) % 4
						!= 3, "args_tuple": (c // 5) % 2 == 0}, rec)
		rec.mark_exhaustive("grid")
	elif unit["cls"] == "oom":
		c = 0
		for n in range(2, unit["N"] + 1, 2):
			for b in (n, n - 1, max(2, n // 2 + 1), n + 3):
				for lim in (1, 2, max(1, b // 2), b - 1):
					if lim >= min(b, n) or lim < 1:
						continue
					c += 1
					run_case("oom-fault", {"n": n, "batch_size": b,
						"n_args": 1 + c % 3, "kind": ("tensor", "tuple")[c %
						2], "oom_limit": lim, "xdtype": "float64"}, rec)
	elif unit["cls"] == "mismatch":
		for n in range(1, unit["N"] + 1, 2):
			for k in (1, 2, 3):
				for j in range(k):
					for delta in (-1, 1, n):
						for b in (1, n, n + 2):
							run_case("mismatch", {"n": n, "batch_size": b,
								"n_args": k, "kind": "tensor",
								"mismatch": [j, delta]}, rec)
	else:
		n = unit["n"]
		for b in range(1, n + 4):
			for k in (0, 1, 2):
				run_case("bn-dropout", {"n": n, "batch_size": b, "n_args": k,
					"kind": "bn", "mseed": unit["seed"] + n,
					"start_state": ("train", "eval", "mixed-dropout",
					"mixed-bn")[(n + b + k) % 4]}, rec)
