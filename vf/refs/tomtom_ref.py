"""Independent complete-score TOMTOM reference (C14).  No tangermeme imports.

Inputs are the integerised similarity matrix x[j, i] (target column j of the
pooled target columns, query column i; values 0..n_bins), the per-query-column
null pmf derived from it, and the integer offset (the score given to an
unaligned query column).  Everything else - alignment enumeration, span
distributions by convolution, p-values, strand merging - is recomputed here.
"""

import numpy


def column_pmfs(x, counts, n_bins):
	"""x (n_cols, nq) ints, counts (n_cols,) multiplicities -> (nq, n_bins+1)"""
	nq = x.shape[1]
	f = numpy.zeros((nq, n_bins + 1))
	tot = float(counts.sum())
	for i in range(nq):
		for j in range(x.shape[0]):
			f[i, int(x[j, i])] += counts[j] / tot
	return f


class SpanDist:
	def __init__(self, f, offset, nq):
		self.f, self.offset, self.nq = f, int(offset), nq
		self.cache = {}

	def cdf(self, lo, hi, s):
		"""P(sum_{i=lo..hi} X_i + offset*(nq-(hi-lo+1)) <= s)"""
		key = (lo, hi)
		if key not in self.cache:
			pmf = numpy.array([1.0])
			for i in range(lo, hi + 1):
				pmf = numpy.convolve(pmf, self.f[i])
			self.cache[key] = numpy.cumsum(pmf)
		c = self.cache[key]
		v = s - self.offset * (self.nq - (hi - lo + 1))
		if v < 0:
			return 0.0
		if v >= len(c):
			return float(c[-1])
		return float(c[v])


def alignments(nq, nt):
	"""-> list of (reported offset, query span lo, hi, overlap) for all
	nt+nq-1 relative placements; reported offset = target position aligned
	with query column 0."""
	out = []
	for a in range(nt + nq - 1):
		off = a - nq + 1
		lo = max(0, -off)
		hi = min(nq - 1, nt - 1 - off)
		out.append((off, lo, hi, hi - lo + 1))
	return out


def match_one(xt, sd, nq, offset):
	"""xt: (nt, nq) integer scores of this target's columns vs query columns.
	-> (best score, set of (offset, overlap) attaining it, p-value)"""
	nt = xt.shape[0]
	als = alignments(nq, nt)
	scores = []
	for off, lo, hi, ov in als:
		s = int(offset) * (nq - ov)
		for i in range(lo, hi + 1):
			s += int(xt[i + off, i])
		scores.append(s)
	best = max(scores)
	maxim = {(als[k][0], als[k][3]) for k, s in enumerate(scores) if s == best}
	prod = 1.0
	for off, lo, hi, ov in als:
		prod *= sd.cdf(lo, hi, best - 1)
	return best, maxim, 1.0 - prod


def merge_strands(fw, rv):
	"""fw, rv: (score, maximisers, p) -> (p, allowed (score, strand,
	maximisers) list)"""
	p = 1.0 - (1.0 - min(fw[2], rv[2])) ** 2
	allowed = []
	if fw[0] >= rv[0]:
		allowed.append((fw[0], 0, fw[1]))
	if rv[0] >= fw[0]:
		allowed.append((rv[0], 1, rv[1]))
	return p, allowed
