"""C11  FIMO p-value tables are the exact tail distribution of the discretised
score.

Monitor: the (smallest, table) pair returned by fimo._pwm_to_mapping (serial
kernel, also under NUMBA_BOUNDSCHECK=1) and by fimo._all_pwm_to_mapping (the
parallel driver fimo() uses) is compared entry by entry with the exact tail
probability obtained from an integer-count dynamic programme; for widths <= 7
the dynamic programme is itself cross-checked by enumerating all 4^w
sequences.
"""

import math

import numpy

from .. import gen
from ..refs import fimo_ref as fr

ID = "C11"
LEVEL = "exploration"
REPLAY_ENV = {"NUMBA_NUM_THREADS": "4"}
RULE = ("one case = one (PWM, width 1-30, bin size, pseudocount) table, every "
	"entry compared with the exact tail probability (integer counts; all "
	"4^w sequences enumerated for w <= 7).  PWM classes: Dirichlet columns "
	"(alpha 0.1/0.5/2), columns with zeros, uniform columns, one-hot "
	"columns, mixtures.  Non-trivial = the table has at least 3 attainable "
	"score bins with distinct probabilities; distinct = distinct (PWM, "
	"bin size, eps).")
ASSUMPTIONS = [
	"the discretised score of a column is numpy.round(log2((p+eps)/0.25) / "
	"bin_size) (half-even), the definition used by the statement",
	"tolerance 1e-9 in log2 units (7e-10 relative in p)",
	"4-letter alphabet, uniform background 0.25",
]
REQUIRED = {"fimo_hit_pvalues_checked": 50, "entries_compared": 1000, "brute_force_crosschecks": 5,
	"entries_above_max_checked": 20}
TECHNIQUE = ("runtime monitoring: exact integer-count reference (and brute "
	"force for w<=7) compared with every entry of every observed p-value "
	"table; kernel also run under numba bounds checking")

BINS = [0.01, 0.05, 0.1, 0.25, 0.5, 1.0]


def make_pwm(params):
	r = gen.nprng("C11pwm", params["pseed"])
	w, kind = params["w"], params["kind"]
	cols = []
	for i in range(w):
		k = kind if kind != "mixed" else ["d0.1", "d0.5", "d2", "zeros",
			"uniform", "onehot"][int(r.integers(6))]
		if k.startswith("d"):
			c = r.dirichlet([float(k[1:])] * 4)
		elif k == "zeros":
			c = r.dirichlet([1.0] * 4)
			z = r.choice(4, size=int(r.integers(1, 3)), replace=False)
			c[z] = 0
			c = c / c.sum()
		elif k == "uniform":
			c = numpy.full(4, 0.25)
		elif k == "onehot":
			c = numpy.zeros(4)
			c[int(r.integers(4))] = 1.0
		else:
			raise AssertionError(k)
		cols.append(c)
	return numpy.array(cols).T.copy()


def judge_table(rec, cls, params, smallest, table, isc, desc):
	"""-> True if held."""
	table = numpy.asarray(table, dtype=numpy.float64)
	smallest = int(smallest)
	lo, hi, lt = fr.exact_table(isc)
	if numpy.isnan(table).any():
		k = int(numpy.argwhere(numpy.isnan(table))[0][0])
		rec.violation(cls, params, dict(desc, what="NaN in the table",
			index=k, score_bin=k + smallest, max_attainable=hi,
			n_nan=int(numpy.isnan(table).sum())), mech="C11/nan-in-table")
		return False
	if smallest > lo or smallest + len(table) - 1 < hi:
		rec.violation(cls, params, dict(desc, what="table [%d, %d] does not "
			"cover the attainable scores [%d, %d]" % (smallest, smallest +
			len(table) - 1, lo, hi)), mech="C11/table-range")
		return False
	n_above = 0
	for k in range(len(table)):
		s = k + smallest
		got = float(table[k])
		if s <= lo:
			exp = 0.0
		elif s > hi:
			exp = -math.inf
			n_above += 1
		else:
			exp = float(lt[s - lo])
		rec.count("entries_compared")
		if exp == -math.inf:
			ok = got == -math.inf
		else:
			ok = abs(got - exp) <= 1e-9
		if not ok:
			if got > 1e-12:
				mech = "C11/log-p-above-0"
			elif exp == -math.inf:
				mech = "C11/mass-above-max-score"
			elif s == hi and abs(got - exp - 1.0) < 1e-6:
				mech = "C11/top-bin-doubled"
			else:
				mech = "C11/wrong-tail-probability"
			rec.violation(cls, params, dict(desc, what="table entry differs "
				"from the exact tail probability", index=k, score_bin=s,
				min_attainable=lo, max_attainable=hi, got_log2p=got,
				exact_log2p=exp, got_p=2.0 ** got if got < 1 else None,
				exact_p=2.0 ** exp), mech=mech)
			return False
	rec.count("entries_above_max_checked", n_above)
	d = numpy.diff(table)
	if (d > 1e-12).any():
		k = int(numpy.argwhere(d > 1e-12)[0][0])
		rec.violation(cls, params, dict(desc, what="table increases",
			index=k, values=[float(table[k]), float(table[k + 1])]),
			mech="C11/not-monotone")
		return False
	return True


def case_fimo(cls, params, rec):
	"""p-value column of fimo(): a call history on the same motif objects
	with changing eps / bin_size; every reported hit's p-value must be the
	exact-table entry of its score bin (or a neighbouring bin: the statement
	does not fix how a real score is mapped to its integer bin)."""
	import torch
	from tangermeme.tools import fimo as F
	r = gen.pyrng("C11fimo", params["pseed"])
	pwms = {"a": make_pwm(dict(params, w=params["w"], kind="d0.1")),
		"b": make_pwm(dict(params, w=max(2, params["w"] - 1), kind="d0.5",
		pseed=params["pseed"] + 1))}
	tm = {k: torch.from_numpy(v.copy()) for k, v in pwms.items()}
	seqs = []
	for i in range(4):
		s_ = list(gen.rand_seq(r, 40))
		for name, pw in pwms.items():
			c = "".join(fr.ALPHA[int(a)] for a in pw.argmax(axis=0))
			o = r.randint(0, 40 - len(c))
			s_[o:o + len(c)] = list(c)
		seqs.append("".join(s_))
	X = gen.ohe(seqs, dtype=torch.float32)
	n_hits = 0
	for step, (eps, b) in enumerate(params["history"]):
		st, val = gen.call(F.fimo, tm, X, eps=eps, bin_size=b,
			threshold=params["threshold"], reverse_complement=False)
		if st == "raise":
			rec.violation(cls, params, {"what": "fimo raised", "step": step,
				"error": repr(val)[:300]}, mech="C11/raised")
			return
		for mi, (name, pw) in enumerate(pwms.items()):
			lo = fr.log_odds(pw, eps)
			isc = fr.int_scores(lo, b)
			tlo, thi, lt = fr.exact_table(isc)
			for row in val[mi].to_dict("records"):
				sc = fr.window_scores(seqs[int(row["sequence_name"])][
					int(row["start"]):int(row["end"])], lo)[0]
				q = math.floor(sc / b)
				allowed = []
				for k in (q - 1, q, q + 1):
					allowed.append(0.0 if k <= tlo else -math.inf if k > thi
						else float(lt[k - tlo]))
				p = float(row["p-value"])
				lp = math.log2(p) if p > 0 else -math.inf
				n_hits += 1
				rec.count("fimo_hit_pvalues_checked")
				if not any(a == lp or (a != -math.inf and abs(a - lp) <=
					1e-9) for a in allowed):
					rec.violation(cls, params, {"what": "p-value of a fimo "
						"hit is not the exact tail probability of its score "
						"bin", "call_in_history": step, "eps": eps,
						"bin_size": b, "history": params["history"],
						"motif": name, "score": sc, "reported_p": p,
						"exact_p_of_neighbouring_bins": [2.0 ** a
						for a in allowed]}, mech="C11/fimo-p-value")
					return
	rec.held(cls, params, nontrivial=n_hits > 0)


def run_case(cls, params, rec):
	if params.get("api") == "fimo":
		return case_fimo(cls, params, rec)
	from tangermeme.tools import fimo as F
	pwm = make_pwm(params)
	lo_pwm = fr.log_odds(pwm, params["eps"])
	isc = fr.int_scores(lo_pwm, params["bin"])
	w = params["w"]
	desc = {"w": w, "bin_size": params["bin"], "eps": params["eps"],
		"kind": params["kind"], "pwm": numpy.round(pwm, 6).T.tolist()
		if w <= 8 else "pseed=%d" % params["pseed"]}
	if w <= 7:
		b = fr.brute_table(isc)
		e = fr.exact_table(isc)
		if b[0] != e[0] or b[1] != e[1] or numpy.abs(b[2] - e[2]).max() > 1e-12:
			rec.inconclusive(cls, params, "oracle self-check failed")
			rec.note("DP and brute force disagree for %s" % desc)
			return
		rec.count("brute_force_crosschecks")
	api = params.get("api", "single")
	if api == "single":
		st, val = gen.call(F._pwm_to_mapping, numpy.ascontiguousarray(lo_pwm),
			float(params["bin"]))
		if st == "raise":
			rec.violation(cls, params, dict(desc, what="_pwm_to_mapping "
				"raised", error=repr(val)[:300]), mech="C11/raised")
			return
		smallest, table = val
		if not judge_table(rec, cls, params, smallest, table, isc, desc):
			return
	else:
		# several motifs through the parallel driver, as fimo() does
		import numba
		others = []
		r = gen.pyrng("C11all", params["pseed"])
		for j in range(params.get("n_other", 3)):
			p2 = dict(params, w=r.randint(1, 12), pseed=params["pseed"] * 31 +
				j, kind="mixed")
			others.append(make_pwm(p2))
		pwms = others[:1] + [pwm] + others[1:]
		los = [fr.log_odds(p, params["eps"]) for p in pwms]
		lengths = numpy.cumsum([0] + [p.shape[1] for p in pwms]).astype(
			numpy.uint64)
		cat = numpy.ascontiguousarray(numpy.concatenate(los, axis=1))
		numba.set_num_threads(min(params.get("threads", 4),
			numba.config.NUMBA_NUM_THREADS))
		st, val = gen.call(F._all_pwm_to_mapping, cat, lengths,
			float(params["bin"]))
		if st == "raise":
			rec.violation(cls, params, dict(desc, what="_all_pwm_to_mapping "
				"raised", error=repr(val)[:300]), mech="C11/raised")
			return
		smallests, tables = val
		for j, p in enumerate(pwms):
			iscj = fr.int_scores(los[j], params["bin"])
			if not judge_table(rec, cls, params, smallests[j], tables[j],
				iscj, dict(desc, motif_in_batch=j, w=p.shape[1])):
				return
	lo, hi, lt = fr.exact_table(isc)
	rec.held(cls, params, nontrivial=len(set(numpy.round(lt, 9))) >= 3)


def plan(tier, seed):
	n = 320 if tier == "quick" else 20000
	per = 10 if tier == "quick" else 250
	units = []
	for k0 in range(0, n, per):
		env = {}
		if (k0 // per) % 8 == 7:
			env = {"NUMBA_BOUNDSCHECK": "1"}
		elif (k0 // per) % 8 == 3:
			env = {"NUMBA_NUM_THREADS": "4"}
		units.append({"cls": "tables", "k0": k0, "k1": min(n, k0 + per),
			"seed": seed, "weight": per, "env": env,
			"api": "all" if (k0 // per) % 8 == 3 else "single",
			"tier": tier})
	nf = 4 if tier == "quick" else 40
	for j in range(nf):
		units.append({"cls": "fimo", "k0": j * 5, "k1": j * 5 + 5,
			"seed": seed, "weight": 5, "tier": tier})
	return units


def gen_case(seed, k, tier):
	r = gen.pyrng("C11", seed, k)
	wmax = 30
	w = r.choice([1, 2, 3, 4, 5, 6, 7]) if k % 3 == 0 else r.randint(1, wmax)
	b = r.choice(BINS)
	if w > 16 and b < 0.05 and tier == "quick":
		b = 0.1
	eps = r.choice([1e-6, 1e-5, 1e-4, 1e-3, 1e-2, 0.1])
	kind = r.choice(["d0.1", "d0.5", "d2", "zeros", "uniform", "onehot",
		"mixed", "mixed"])
	return {"w": w, "bin": b, "eps": eps, "kind": kind,
		"pseed": r.randrange(10 ** 9)}


def run_unit(unit, rec):
	if unit["cls"] == "fimo":
		for k in range(unit["k0"], unit["k1"]):
			r = gen.pyrng("C11fimo-u", unit["seed"], k)
			eps = r.sample([1e-4, 1e-3, 1e-2, 0.05, 0.1], 3)
			bins = [r.choice([0.05, 0.1, 0.25, 0.5]) for _ in range(2)]
			hist = [[eps[0], bins[0]], [eps[1], bins[0]], [eps[0], bins[0]],
				[eps[2], bins[1]], [eps[1], bins[1]]]
			run_case("fimo-pvalues", {"api": "fimo", "w": r.randint(3, 8),
				"pseed": r.randrange(10 ** 9), "history": hist,
				"threshold": r.choice([1e-1, 1e-2, 1e-3])}, rec)
		return
	if unit.get("env", {}).get("NUMBA_BOUNDSCHECK"):
		rec.count("boundscheck_units")
	for k in range(unit["k0"], unit["k1"]):
		params = gen_case(unit["seed"], k, unit["tier"])
		params["api"] = unit["api"]
		run_case("table-" + unit["api"] + ("-boundscheck" if unit.get("env",
			{}).get("NUMBA_BOUNDSCHECK") else ""), params, rec)
