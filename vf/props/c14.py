"""C14  TOMTOM scores and p-values match an independent complete-score reference.

Monitor: the tensors returned by tools.tomtom.tomtom are compared, for every
query/target pair, with vf/refs/tomtom_ref (alignment enumeration, span null
distributions by convolution, p = 1 - prod CDF(s*-1), strand merging).  The
reference is fed with the integerised similarity matrix obtained by calling
tomtom._integer_distances_and_histogram directly on harness-owned arrays (also
under NUMBA_BOUNDSCHECK=1); that matrix itself is monitored for monotonicity
in the exact Euclidean distance and for agreement with the returned histogram.
"""

import numpy
import torch

from .. import gen
from ..refs import tomtom_ref as tr
from .c13 import make_pwm

ID = "C14"
LEVEL = "exploration"
RULE = ("one case = one tomtom() call (1-8 queries, 1-10 targets, lengths "
	"1-25 with queries shorter, equal and longer than targets, fine "
	"Dirichlet and coarse-grid PWMs, n_score_bins 10-200, rc on/off, hashing "
	"off or verified injective) with every query/target pair judged; plus "
	"self-match, reverse-complemented-target and palindrome variants.  "
	"Non-trivial = the call contains a pair with query longer than target, "
	"one with query shorter than target, and a best alignment with partial "
	"overlap; distinct = distinct calls.")
ASSUMPTIONS = [
	"the integerised similarity matrix and offset are taken from the "
	"implementation's own kernel (the binned median is an approximation by "
	"design and is not re-derived); it is checked for monotonicity in the "
	"exact distance (pairs closer than 1e-9 in distance are not compared) "
	"and for consistency with the returned histogram",
	"p-values compared at 1e-9 absolute; scores exactly",
	"ties: any maximising (offset, overlap) is accepted; equal strand scores "
	"may report either strand",
]
REQUIRED = {"mixed_dtype_motif_lists": 3, "many_query_calls": 1, "inplace_list_calls": 3, "corner_calls": 5, "pairs_judged": 200, "pairs_query_longer": 20,
	"pairs_query_shorter": 20, "monotonicity_pairs": 1000,
	"self_matches": 5, "rc_swaps": 5, "hashing_calls": 3,
	"hashing_constant_row_calls": 2}
TECHNIQUE = ("runtime monitoring: independent complete-score reference "
	"(alignment enumeration + convolution null + strand merge) compared with "
	"every observed tomtom() row; integerisation kernel monitored for "
	"monotonicity under bounds checking")
TIMEOUT = {"quick": 1200, "thorough": 7200}
CHUNKS = {"quick": 12, "thorough": 32}


def rc(p):
	return numpy.ascontiguousarray(p[::-1, ::-1])


def hash_order(Tall, nb):
	"""The column hash of the statement's 'column hashing' (values binned into
	nb bins per row, columns with equal bins merged): -> (indices of the
	first column of every distinct hash in ascending hash order, inverse map,
	counts).  Only used when the hash has been verified injective, i.e. only
	identical columns are merged."""
	T = numpy.concatenate(Tall, axis=-1)
	tmin = T.min(axis=-1, keepdims=True)
	tmax = T.max(axis=-1, keepdims=True).copy()
	tmax[tmax == tmin] = tmin[tmax == tmin] + 1
	ints = numpy.around((T - tmin) / (tmax - tmin) * (nb - 1))
	key = ints.T.dot(nb ** numpy.arange(len(T))[:, None]).flatten()
	_, idx, inv, counts = numpy.unique(key, return_index=True,
		return_inverse=True, return_counts=True)
	return idx, inv, counts


def integerise(TT, Qs, Tall, qi, n_bins, n_median_bins=1000, dedupe=None):
	"""Calls the implementation's integerisation kernel for query qi.
	-> (x (ncols, nq) int, f (nq, n_bins+1), offset)
	dedupe = (idx, inv, counts): the kernel is given the distinct columns
	with their multiplicities (as tomtom does under hashing); x is expanded
	back to all columns."""
	Q = numpy.ascontiguousarray(numpy.concatenate(Qs, axis=-1))
	T = numpy.ascontiguousarray(numpy.concatenate(Tall, axis=-1))
	if dedupe is not None:
		T = numpy.ascontiguousarray(T[:, dedupe[0]])
	Qmax = max(q.shape[1] for q in Qs)
	ncols = T.shape[1]
	gamma = numpy.full((ncols, Qmax), numpy.nan)
	gamma_int = numpy.full((ncols, Qmax), 99, dtype="int16")
	f = numpy.full((Qmax, n_bins + 1), numpy.nan)
	medians = numpy.full(Qmax, numpy.nan)
	median_bins = numpy.full((n_median_bins, 2), numpy.nan)
	Q_norm = (Q ** 2).sum(axis=0)
	T_norm = (T ** 2).sum(axis=0)
	counts = numpy.ones(ncols, dtype=numpy.int64) if dedupe is None else \
		dedupe[2].astype(numpy.int64)
	csum = int(sum(q.shape[1] for q in Qs[:qi]))
	nq = Qs[qi].shape[1]
	off = TT._integer_distances_and_histogram(Q, T, gamma, gamma_int, f,
		medians, median_bins, Q_norm, T_norm, counts, csum, nq, n_bins)
	off = int(off)
	x = gamma_int[:, :nq][:, ::-1].astype(numpy.int64) + off
	if dedupe is not None:
		x = x[dedupe[1]]
	return x, f[:nq].copy(), off


def hash_injective(Tall, nb):
	T = numpy.concatenate(Tall, axis=-1)
	tmin = T.min(axis=-1, keepdims=True)
	tmax = T.max(axis=-1, keepdims=True).copy()
	tmax[tmax == tmin] = tmin[tmax == tmin] + 1
	ints = numpy.around((T - tmin) / (tmax - tmin) * (nb - 1)).T
	seen = {}
	for j, key in enumerate(map(tuple, ints.tolist())):
		col = T[:, j].tobytes()
		if key in seen and seen[key] != col:
			return False
		seen[key] = col
	return True


def judge_call(cls, params, rec, TT, Qs, Ts, kw, desc, tag=""):
	"""Runs tomtom and judges every pair.  -> result array or None."""
	rcflag = kw["reverse_complement"]
	st, val = gen.call(TT.tomtom, Qs, Ts, n_jobs=1, **kw)
	if st == "raise":
		rec.violation(cls, params, dict(desc, what="tomtom raised" + tag,
			error=repr(val)[:300]), mech="C14/out-of-bounds-access"
			if isinstance(val, IndexError) else "C14/raised")
		return None
	res = val.numpy()
	nqs, nts = len(Qs), len(Ts)
	if res.shape != (5, nqs, nts):
		rec.violation(cls, params, dict(desc, what="result shape %s" % (
			res.shape,)), mech="C14/shape")
		return None
	Tall = list(Ts) + ([rc(t) for t in Ts] if rcflag else [])
	dedupe = None
	if kw.get("n_target_bins") is not None:
		dedupe = hash_order(Tall, kw["n_target_bins"])
	tl = [t.shape[1] for t in Tall]
	starts = numpy.cumsum([0] + tl)
	n_bins = kw["n_score_bins"]
	partial = False
	for qi, q in enumerate(Qs):
		nq = q.shape[1]
		st, got = gen.call(integerise, TT, Qs, Tall, qi, n_bins,
			dedupe=dedupe)
		if st == "raise":
			rec.violation(cls, params, dict(desc, what="integerisation "
				"kernel raised (bounds check?)", error=repr(got)[:300]),
				mech="C14/kernel-raised")
			return None
		x, f, offset = got
		if x.min() < 0 or x.max() > n_bins:
			rec.violation(cls, params, dict(desc, what="integerised "
				"similarity outside [0, n_bins]: min %d max %d (int8 "
				"overflow?)" % (x.min(), x.max()), query=qi, offset=offset),
				mech="C14/integerised-range")
			return None
		counts = numpy.ones(x.shape[0])
		fr = tr.column_pmfs(x, counts, n_bins)
		if numpy.isnan(f).any() or numpy.abs(f - fr).max() > 1e-12:
			rec.violation(cls, params, dict(desc, what="histogram returned "
				"by the kernel is not the pooled distribution of the "
				"integerised scores", query=qi, max_abs_diff=float(
				numpy.nanmax(numpy.abs(f - fr)))), mech="C14/histogram")
			return None
		# monotonicity of similarity in exact distance, per query column
		T = numpy.concatenate(Tall, axis=-1)
		for i in range(nq):
			d = numpy.sqrt(((T - q[:, i:i + 1]) ** 2).sum(axis=0))
			order = numpy.argsort(d, kind="stable")
			ds, xs = d[order], x[order, i]
			# running minimum of x over strictly closer columns
			for a in range(1, len(ds)):
				closer = ds[:a] < ds[a] - 1e-9
				if closer.any():
					rec.count("monotonicity_pairs", int(closer.sum()))
					m = xs[:a][closer].min()
					if xs[a] > m:
						b = int(numpy.argwhere(closer & (xs[:a] == m))[0][0])
						rec.violation(cls, params, dict(desc, what="column "
							"similarity not monotone in Euclidean distance",
							query=qi, query_column=i, nearer_distance=float(
							ds[b]), nearer_score=int(m), farther_distance=
							float(ds[a]), farther_score=int(xs[a])),
							mech="C14/not-monotone")
						return None
		sd = tr.SpanDist(fr, offset, nq)
		for ti in range(nts):
			ref_f = tr.match_one(x[starts[ti]:starts[ti + 1]], sd, nq, offset)
			if rcflag:
				ref_r = tr.match_one(x[starts[ti + nts]:starts[ti + nts + 1]],
					sd, nq, offset)
				p_ref, allowed = tr.merge_strands(ref_f, ref_r)
			else:
				p_ref, allowed = ref_f[2], [(ref_f[0], 0, ref_f[1])]
			p, score, off, ov, strand = res[:, qi, ti]
			rec.count("pairs_judged")
			nt = tl[ti]
			if nq > nt:
				rec.count("pairs_query_longer")
			elif nq < nt:
				rec.count("pairs_query_shorter")
			if ov < min(nq, nt):
				partial = True
			d = dict(desc, query=qi, target=ti, query_len=nq, target_len=nt,
				got={"p": float(p), "score": float(score), "offset":
				float(off), "overlap": float(ov), "strand": float(strand)})
			best = max(a[0] for a in allowed)
			if score != best:
				rec.violation(cls, params, dict(d, what="reported score is "
					"not the maximum complete-score alignment sum" + tag,
					reference_score=best), mech="C14/score")
				return None
			ok = False
			for (s, sflag, maxim) in allowed:
				if strand == sflag and (int(off), int(ov)) in maxim and \
					off == int(off) and ov == int(ov):
					ok = True
			if not ok:
				strands = {a[1] for a in allowed}
				mech = "C14/strand" if strand not in strands else \
					"C14/offset-overlap"
				rec.violation(cls, params, dict(d, what="reported (offset, "
					"overlap, strand) does not attain the best score" + tag,
					allowed=[{"strand": a[1], "offset_overlap": sorted(a[2])}
					for a in allowed]), mech=mech)
				return None
			if not abs(p - p_ref) <= 1e-9:
				rec.violation(cls, params, dict(d, what="p-value differs "
					"from 1 - prod_offsets CDF(best-1)" + (" merged as "
					"1-(1-min p)^2" if rcflag else "") + tag,
					reference_p=p_ref, abs_diff=abs(p - p_ref),
					zero_bin_mass=float(fr[:, 0].max())),
					mech="C14/p-value-zero-bin" if fr[:, 0].max() > 0
					else "C14/p-value")
				return None
			rec.maxv("max_abs_p_diff", abs(p - p_ref))
	rec.count("calls_with_partial_overlap_best", int(partial))
	return res, partial


def run_case(cls, params, rec):
	if params.get("kind") == "many":
		return case_many(cls, params, rec)
	from tangermeme.tools import tomtom as TT
	r = gen.pyrng("C14", params["cseed"])
	nr = gen.nprng("C14", params["cseed"])
	grid = params["grid"]
	Qs = [make_pwm(nr, r, r.randint(1, 25), grid)
		for _ in range(params["n_q"])]
	Ts = [make_pwm(nr, r, r.randint(1, 25), grid)
		for _ in range(params["n_t"])]
	# force short-vs-long in both directions
	Qs[0] = make_pwm(nr, r, r.choice([1, 2, 3]), grid)
	Ts[0] = make_pwm(nr, r, r.choice([12, 20, 25]), grid)
	if len(Qs) > 1 and len(Ts) > 1:
		Qs[1] = make_pwm(nr, r, r.choice([15, 25]), grid)
		Ts[1] = make_pwm(nr, r, r.choice([1, 2, 4]), grid)
	kind = params["kind"]
	if params["cseed"] % 5 == 0 and kind != "hashing":
		# motifs of one call need not share a dtype: the first target (and
		# query) is an integer one-hot consensus, the others float PWMs
		from .c13 import make_onehot
		Ts[0] = make_onehot(r, Ts[0].shape[1]).astype(numpy.int64)
		if params["cseed"] % 10 == 0:
			Qs[0] = make_onehot(r, Qs[0].shape[1]).astype(numpy.int64)
		rec.count("mixed_dtype_motif_lists")
	if kind == "corner":
		# very short coarse-grid queries: alignment scores of 0, mass in the
		# lowest score bin, offsets equal to n_score_bins
		for qi in range(len(Qs)):
			Qs[qi] = make_pwm(nr, r, r.choice([1, 1, 2, 3]), "coarse")
		for ti in range(len(Ts)):
			Ts[ti] = make_pwm(nr, r, r.randint(1, 12), "coarse")
		rec.count("corner_calls")
	if kind == "palindrome" and len(Ts) > 2:
		h = make_pwm(nr, r, r.randint(2, 8), grid)
		Ts[2] = numpy.ascontiguousarray(numpy.concatenate([h, rc(h)], axis=1))
	constrow = None
	if kind == "hashing" and params["cseed"] % 4 < 2:
		# some alphabet rows identical over ALL pooled target columns (also
		# after reverse complementing): A/T-only targets, or C = G = const
		constrow = ["C/G rows all zero", "C/G rows all 0.25"][
			params["cseed"] % 4]
		cg = 0.0 if params["cseed"] % 4 == 0 else 0.25
		for ti in range(len(Ts)):
			t = Ts[ti].copy()
			at = t[[0, 3]]
			tot = at.sum(axis=0)
			at[0, tot == 0] = 1.0
			at = at / at.sum(axis=0) * (1 - 2 * cg)
			t[0], t[3], t[1], t[2] = at[0], at[1], cg, cg
			Ts[ti] = numpy.ascontiguousarray(t)
		rec.count("hashing_constant_row_calls")
	kw = dict(n_score_bins=params["n_score_bins"], n_target_bins=None,
		reverse_complement=params["rc"])
	desc = {"query_lengths": [q.shape[1] for q in Qs],
		"target_lengths": [t.shape[1] for t in Ts], "rc": params["rc"],
		"n_score_bins": params["n_score_bins"], "grid": grid,
		"cseed": params["cseed"]}
	if constrow:
		desc["targets"] = constrow
	out = judge_call(cls, params, rec, TT, Qs, Ts, kw, desc)
	if out is None:
		return
	res, partial = out
	nqs, nts = len(Qs), len(Ts)
	if kind == "plain" and nts >= 2:
		# call history: the SAME list object, one target replaced in place,
		# same options; must equal the call on a freshly built list
		Ts_mut = list(Ts)
		gen.call(TT.tomtom, Qs, Ts_mut, n_jobs=1, **kw)
		j = r.randrange(nts)
		Ts_mut[j] = make_pwm(nr, r, Ts[j].shape[1], grid)
		st, v_same = gen.call(TT.tomtom, Qs, Ts_mut, n_jobs=1, **kw)
		st2, v_fresh = gen.call(TT.tomtom, Qs, [t.copy() for t in Ts_mut],
			n_jobs=1, **kw)
		rec.count("inplace_list_calls")
		if st == "raise" or st2 == "raise" or not numpy.array_equal(
			v_same.numpy(), v_fresh.numpy()):
			rec.violation(cls, params, dict(desc, what="a target list "
				"edited in place between two calls gives another result "
				"than a freshly built list with the same contents",
				replaced_target=j), mech="C14/call-history-dependence")
			return
	if kind == "hashing":
		nb = params["n_target_bins"]
		Tall = list(Ts) + ([rc(t) for t in Ts] if params["rc"] else [])
		# finer hashes when the requested one merges distinct columns
		# (nb ** 4 stays exactly representable)
		for nb in (nb, 1000, 5000):
			if hash_injective(Tall, nb):
				break
		if hash_injective(Tall, nb):
			rec.count("hashing_calls")
			# the hashed call is judged like any other call, with the
			# integerised matrix obtained for the merged columns and their
			# multiplicities (hashed and unhashed results may legitimately
			# differ at exact half-way ties: the binned median sums the same
			# values in another order)
			out2 = judge_call(cls, params, rec, TT, Qs, Ts, dict(kw,
				n_target_bins=nb), desc, tag=" (with column hashing)")
			if out2 is None:
				return
			v = out2[0]
			if numpy.abs(v[0] - res[0]).max() > 1e-9 and numpy.array_equal(
				v[1:], res[1:]):
				rec.violation(cls, params, dict(desc, what="injective column "
					"hashing changes p-values although scores, offsets and "
					"overlaps are identical", n_target_bins=nb,
					max_abs_p_diff=float(numpy.abs(v[0] - res[0]).max())),
					mech="C14/hashing")
				return
		else:
			rec.count("hashing_skipped_not_injective")
	if kind == "self":
		# each query appended to the target set: best at offset 0, full overlap
		for qi, q in enumerate(Qs):
			Ts2 = list(Ts) + [q.copy()]
			st, val = gen.call(TT.tomtom, [q], Ts2, n_jobs=1, **dict(kw,
				reverse_complement=False))
			if st == "raise":
				rec.violation(cls, params, dict(desc, what="tomtom raised on "
					"self match", error=repr(val)[:300]), mech="C14/raised")
				return
			p, score, off, ov, strand = val.numpy()[:, 0, -1]
			rec.count("self_matches")
			nq = q.shape[1]
			# reference maximisers for this pair
			st2, got = gen.call(integerise, TT, [q], Ts2, 0,
				params["n_score_bins"])
			if st2 == "raise":
				rec.violation(cls, params, dict(desc, what="kernel raised",
					error=repr(got)[:300]), mech="C14/kernel-raised")
				return
			x, f, offset = got
			s0 = sum(t.shape[1] for t in Ts)
			sd = tr.SpanDist(tr.column_pmfs(x, numpy.ones(x.shape[0]),
				params["n_score_bins"]), offset, nq)
			best, maxim, pref = tr.match_one(x[s0:s0 + nq], sd, nq, offset)
			if (0, nq) not in maxim:
				rec.violation(cls, params, dict(desc, what="a motif aligned "
					"with itself at offset 0 does not attain the best "
					"complete score", query=qi, query_len=nq,
					maximisers=sorted(maxim)), mech="C14/self-match")
				return
			if (int(off), int(ov)) != (0, nq) and len(maxim) == 1:
				rec.violation(cls, params, dict(desc, what="self match "
					"reported at offset %s overlap %s instead of (0, %d)" % (
					off, ov, nq), query=qi), mech="C14/self-match")
				return
	if kind == "rcswap" and params["rc"]:
		Ts2 = [rc(t) for t in Ts]
		st, val = gen.call(TT.tomtom, Qs, Ts2, n_jobs=1, **kw)
		if st == "raise":
			rec.violation(cls, params, dict(desc, what="tomtom raised on "
				"reverse-complemented targets", error=repr(val)[:300]),
				mech="C14/raised")
			return
		v = val.numpy()
		rec.count("rc_swaps")
		for qi in range(nqs):
			for ti in range(nts):
				a, b = res[:, qi, ti], v[:, qi, ti]
				if abs(a[0] - b[0]) > 1e-12 or a[1] != b[1]:
					rec.violation(cls, params, dict(desc, what="reverse-"
						"complementing the targets changes p-value or score",
						query=qi, target=ti, original=a.tolist(),
						swapped=b.tolist()), mech="C14/rc-swap")
					return
	nl = any(q.shape[1] > t.shape[1] for q in Qs for t in Ts)
	ns = any(q.shape[1] < t.shape[1] for q in Qs for t in Ts)
	rec.held(cls, params, nontrivial=nl and ns and partial)


def case_many(cls, params, rec):
	"""A call with more than 2**15 concatenated query columns: the rows of
	queries near the end, around the 2**15 boundary and at the start are
	judged through a call of their own (compared with the reference pair by
	pair) and must be the rows the large call reports."""
	from tangermeme.tools import tomtom as TT
	r = gen.pyrng("C14many", params["cseed"])
	nr = gen.nprng("C14many", params["cseed"])
	Qs = [make_pwm(nr, r, r.randint(8, 12), "fine")
		for _ in range(params["n_q"])]
	Ts = [make_pwm(nr, r, r.randint(4, 14), "fine")
		for _ in range(params["n_t"])]
	kw = dict(n_score_bins=params["n_score_bins"], n_target_bins=None,
		reverse_complement=params["rc"])
	csum = numpy.cumsum([0] + [q.shape[1] for q in Qs])
	desc = {"n_queries": len(Qs), "total_query_columns": int(csum[-1]),
		"target_lengths": [t.shape[1] for t in Ts], "rc": params["rc"],
		"n_score_bins": params["n_score_bins"], "cseed": params["cseed"]}
	st, big = gen.call(TT.tomtom, Qs, Ts, n_jobs=-1, **kw)
	if st == "raise":
		rec.violation(cls, params, dict(desc, what="tomtom raised",
			error=repr(big)[:300]), mech="C14/raised")
		return
	big = big.numpy()
	i15 = int(numpy.searchsorted(csum, 2 ** 15))
	for g in ([0, 1, 2], list(range(i15 - 2, i15 + 2)), list(range(len(Qs)
		- 4, len(Qs)))):
		out = judge_call(cls, params, rec, TT, [Qs[i] for i in g], Ts, kw,
			dict(desc, queries_judged=g), tag=" (queries %s on their own)" % g)
		if out is None:
			return
		small = out[0]
		if numpy.abs(big[0][g] - small[0]).max() > 1e-9 or not \
			numpy.array_equal(big[1:, g], small[1:]):
			rec.violation(cls, params, dict(desc, what="rows of queries %s "
				"in the large call differ from the rows that match the "
				"reference" % g, first_column_of_first_query=int(csum[g[0]]),
				max_abs_p_diff=float(numpy.abs(big[0][g] - small[0]).max())),
				mech="C14/score")
			return
	rec.count("many_query_calls")
	rec.held(cls, params, nontrivial=True)


def gen_params(seed, k):
	r = gen.pyrng("C14p", seed, k)
	return {"cseed": r.randrange(10 ** 9), "n_q": r.randint(1, 8),
		"n_t": r.randint(1, 10), "rc": r.random() < 0.6,
		"n_score_bins": r.choice([10, 25, 50, 100, 100, 200]),
		"grid": r.choice(["fine", "fine", "coarse"]),
		"kind": ["plain", "self", "rcswap", "hashing", "palindrome",
			"corner"][k % 6],
		"n_target_bins": r.choice([100, 20, 1000])}


def plan(tier, seed):
	n = 72 if tier == "quick" else 3000
	per = 6 if tier == "quick" else 100
	units = []
	for i, k0 in enumerate(range(0, n, per)):
		env = {}
		if i % 4 == 2:
			env = {"NUMBA_BOUNDSCHECK": "1"}
		units.append({"cls": "calls", "k0": k0, "k1": min(n, k0 + per),
			"seed": seed, "weight": per, "env": env})
	for j in range(1 if tier == "quick" else 4):
		units.append({"cls": "many", "j": j, "seed": seed, "weight": per})
	return units


def run_unit(unit, rec):
	if unit["cls"] == "many":
		r = gen.pyrng("C14manyp", unit["seed"], unit["j"])
		run_case("tomtom-many-queries", {"kind": "many",
			"cseed": r.randrange(10 ** 9), "n_q": 3400 + r.randint(0, 400),
			"n_t": r.randint(2, 4), "rc": r.random() < .5,
			"n_score_bins": r.choice([50, 100])}, rec)
		return
	bc = bool(unit.get("env", {}).get("NUMBA_BOUNDSCHECK"))
	if bc:
		rec.count("boundscheck_units")
	for k in range(unit["k0"], unit["k1"]):
		params = gen_params(unit["seed"], k)
		if params["kind"] == "rcswap":
			params["rc"] = True
		if params["kind"] == "corner":
			r = gen.pyrng("C14corner", unit["seed"], k)
			params["n_score_bins"] = r.choice([10, 50, 100, 200, 200])
			params["grid"] = "coarse"
		run_case("tomtom-" + params["kind"] + ("-boundscheck" if bc else ""),
			params, rec)
