"""C04  DeepLIFT/SHAP completeness (attributions sum to the prediction
difference from reference) and absence of convergence warnings.

Monitor: every deep_lift_shap call of the workload is observed at the API
boundary (raw multipliers with the references that were used; processed
attributions; the warnings module) and judged against plain no-grad forward
passes of the same model made by the harness.
"""

import copy
import warnings

import torch

from .. import gen
from ..refs import dls

ID = "C04"
LEVEL = "exploration"
RULE = ("one case = one generated sequential architecture (depth 1-4 blocks: "
	"Conv1d with stride/dilation/padding, AvgPool1d, MaxPool1d incl. "
	"overlapping/padded/dilated/ceil windows, Flatten/Unflatten, Linear, one "
	"of 16 element-wise activations per slot) with random float64 (or "
	"integer) weights, a batch of one-hot inputs, given or generated "
	"references, a target, n_shuffles and a batch size; both raw multipliers "
	"and processed attributions are judged for every example-reference pair. "
	"Non-trivial = the architecture contains at least one hooked non-linear "
	"unit (activation or max-pool) and input != reference; distinct = "
	"distinct (architecture, weights, inputs, call arguments).")
ASSUMPTIONS = [
	"tolerance 1e-8 * (1 + sum |terms|) in float64",
	"a pair in which some hooked unit has 0 < |delta_in| < 1e-5 is "
	"inconclusive when it fails (the gradient/ratio switch at 1e-6 "
	"legitimately changes the sum by up to |delta_in|)",
	"GLU and Softmax are not element-wise and are outside the statement",
	"each activation module instance is used once (sequential models)",
]
REQUIRED = {"custom_reference_function_calls": 3, "float32_reference_calls": 3, "prior_override_calls": 10, "pairs_checked": 200, "archs_with_maxpool": 5}
TECHNIQUE = ("runtime monitoring: completeness oracle (plain forward passes) "
	"on every observed deep_lift_shap result over generated architectures; "
	"warnings monitor")


def make_inputs(params):
	r = gen.pyrng("C04in", params["iseed"])
	A, L, n, ns = params["A"], params["L"], params["n"], params["n_shuffles"]
	X = dls.random_onehot(r, n, A, L)
	refs = None
	kind = params.get("refkind", "onehot")
	if params["refs"] == "given":
		refs = dls.random_onehot(r, n * ns, A, L).reshape(n, ns, A, L)
		# "any reference set": references need not be one-hot
		if kind == "zeros":
			refs = torch.zeros_like(refs)
		elif kind == "uniform":
			refs = torch.full_like(refs, 1.0 / A)
		elif kind == "soft":
			g = torch.Generator().manual_seed(params["iseed"])
			refs = torch.softmax(torch.randn(refs.shape, generator=g,
				dtype=torch.float64) * 2, dim=2)
		elif kind == "onehotN":
			for i in range(n):
				for j in range(ns):
					z = torch.tensor([r.random() < 0.3 for _ in range(L)])
					refs[i, j][:, z] = 0
		if params.get("near") and kind in ("onehot", "onehotN"):
			# references that coincide with x at most positions (many units
			# with delta_in exactly 0)
			for i in range(n):
				for j in range(ns):
					keep = torch.tensor([r.random() < 0.7 for _ in range(L)])
					refs[i, j][:, keep] = X[i][:, keep]
	return X, refs


def run_case(cls, params, rec):
	from tangermeme.deep_lift_shap import deep_lift_shap
	from tangermeme import ersatz
	spec = params["spec"]
	A, L, n, ns = params["A"], params["L"], params["n"], params["n_shuffles"]
	model = dls.build(spec, params["wseed"], params.get("weights", "float"))
	plain = copy.deepcopy(model)
	X, refs = make_inputs(params)
	# same values handed over as views into larger storages
	params, X, xbase = gen.apply_layout(params, rec, X)
	rbase = None
	if refs is not None:
		refs, rbase = gen.relayout(refs, gen.layout_of(params, "refs"))
		if params.get("refs_dtype") == "float32" or ("refs_dtype" not in
			params and gen.pyrng("C04refdt", repr(sorted((k_, repr(v_))
			for k_, v_ in params.items() if k_ != "layout"))).randrange(
			4) == 0):
			# references held in single precision (values exactly
			# representable in the model's double precision)
			refs = refs.float()
			params = dict(params, refs_dtype="float32")
			rec.count("float32_reference_calls")
		else:
			params = dict(params, refs_dtype="float64")
	target = params["target"]
	mp = dls.maxpool_class(spec)
	has_mp = any(s["t"] == "maxpool" for s in spec)
	has_nl = has_mp or any(s["t"] == "act" for s in spec)
	if has_mp:
		rec.count("archs_with_maxpool")
	rec.setadd("reference_kinds", params["refs"] + ":" + params.get(
		"refkind", "onehot") if params["refs"] == "given" else params["refs"])
	rec.setadd("activations_seen", ",".join(sorted({s["name"] for s in spec
		if s["t"] == "act"})) or "-", cap=400)
	for s in spec:
		if s["t"] == "act":
			rec.setadd("activation_types", s["name"])
		if s["t"] == "maxpool":
			rec.setadd("maxpool_kinds", dls.maxpool_class([s]) or "disjoint")
	kw = dict(target=target, batch_size=params["batch_size"], device="cpu")
	if refs is not None:
		kw["references"] = refs
	else:
		def custom_refs(Xb, n=1, random_state=None, **_):
			# a caller-written reference function: a soft (frequency-like)
			# background, deterministic in (sequence, seed)
			code = int((Xb.to(torch.float64) * torch.arange(1, Xb[0].numel()
				+ 1, dtype=torch.float64).reshape(Xb.shape[1:])).sum()) % 9973
			g = torch.Generator().manual_seed(code * 131 + int(
				random_state or 0))
			return torch.softmax(torch.randn((Xb.shape[0], n) + tuple(
				Xb.shape[1:]), generator=g, dtype=torch.float64) * 2,
				dim=2).type(Xb.dtype)
		kw["references"] = {"dinuc": ersatz.dinucleotide_shuffle,
			"shuffle": ersatz.shuffle, "custom": custom_refs}[params["refs"]]
		if params["refs"] == "custom":
			rec.count("custom_reference_function_calls")
		kw["n_shuffles"] = ns
		kw["random_state"] = params["random_state"]
		kw["return_references"] = True

	def mech(default):
		if mp == "dilated":
			return "C04/maxpool-dilation"
		if mp in ("overlapping", "ceil"):
			return "C04/maxpool-overlapping-windows"
		return default

	desc = {"arch": dls.describe(spec), "A": A, "L": L, "n": n,
		"n_shuffles": ns, "batch_size": params["batch_size"],
		"target": target, "refs": params["refs"]}
	if params.get("user_hooks"):
		# the caller's own (harmless) forward hooks on the non-linear layers,
		# e.g. an activation recorder: attributions must be unaffected
		seen_ = []
		for m_ in model.modules():
			if isinstance(m_, dls.ACT_TYPES + (torch.nn.MaxPool1d,)):
				m_.register_forward_hook(lambda mod, i, o: seen_.append(1))
		rec.count("models_with_user_forward_hooks")
	if params.get("prior_override_call"):
		# call history: an earlier call overriding the rules of the built-in
		# layers must not influence later ordinary calls
		def plain_handler(module, grad_input, grad_output):
			return grad_input
		ov = {t: plain_handler for t in dls.ACT_TYPES + (torch.nn.MaxPool1d,)}
		other = dls.build(spec, params["wseed"] + 5, "float")
		with warnings.catch_warnings():
			warnings.simplefilter("ignore")
			gen.call(deep_lift_shap, other, X, additional_nonlinear_ops=ov,
				**{k_: v_ for k_, v_ in kw.items() if k_ !=
				"return_references"})
		rec.count("prior_override_calls")
	with warnings.catch_warnings(record=True) as wlog:
		warnings.simplefilter("always")
		st, val = gen.call(deep_lift_shap, model, X, raw_outputs=True, **kw)
	if st == "raise":
		if refs is None:
			# a refusal when the reference function itself refuses one of
			# these sequences (nothing to shuffle)
			for i in range(n):
				for j in range(ns):
					stf, _ = gen.call(kw["references"], X[i:i + 1], n=1,
						random_state=int(params["random_state"]) + j)
					if stf == "raise":
						rec.refusal(cls, params, repr(val)[:200])
						return
		rec.violation(cls, params, dict(desc, what="deep_lift_shap raised",
			error=repr(val)[:400]), mech=mech("C04/raised"))
		return
	if refs is None:
		mult, used = val
	else:
		mult, used = val, refs
	used_arg = used
	used = used.type(torch.float64)
	if tuple(mult.shape) != (n, ns, A, L) or tuple(used.shape) != (n, ns, A,
		L):
		rec.violation(cls, params, dict(desc, what="shape of raw output %s / "
			"references %s" % (tuple(mult.shape), tuple(used.shape))),
			mech="C04/shape")
		return
	with torch.no_grad():
		fx = plain(X)[:, target]
		fr = plain(used.reshape(n * ns, A, L))[:, target].reshape(n, ns)
	worst, worst_ij, amb = 0.0, None, False
	for i in range(n):
		for j in range(ns):
			terms = (X[i] - used[i, j]) * mult[i, j]
			lhs = float(terms.sum())
			rhs = float(fx[i] - fr[i, j])
			tol = 1e-8 * (1 + float(terms.abs().sum()) + abs(float(fx[i])) +
				abs(float(fr[i, j])))
			err = abs(lhs - rhs)
			rec.count("pairs_checked")
			if not (err <= tol):
				md = dls.min_nonzero_delta(plain, X[i:i + 1], used[i, j][
					None])
				if md < 1e-5:
					amb = True
					rec.minv("min_nonzero_delta_in_of_ambiguous_pairs", md)
					continue
				if err / tol > worst:
					worst, worst_ij = err / tol, (i, j, lhs, rhs)
	rec.maxv("max_raw_error_over_tol", worst)
	if worst_ij is not None:
		i, j, lhs, rhs = worst_ij
		rec.violation(cls, params, dict(desc, what="raw completeness: "
			"sum((x-ref)*multipliers) != f(x)-f(ref)", example=i, reference=j,
			sum_contrib=lhs, output_diff=rhs, abs_error=abs(lhs - rhs)),
			mech=mech("C04/raw-completeness"))
		return
	# processed attributions with the same references
	kw2 = dict(kw)
	kw2.pop("return_references", None)
	kw2.pop("random_state", None)
	kw2.pop("n_shuffles", None)
	kw2["references"] = used_arg
	with warnings.catch_warnings(record=True) as wlog2:
		warnings.simplefilter("always")
		st2, attr = gen.call(deep_lift_shap, model, X, **kw2)
	if st2 == "raise":
		rec.violation(cls, params, dict(desc, what="deep_lift_shap "
			"(processed) raised", error=repr(attr)[:400]),
			mech=mech("C04/raised"))
		return
	if tuple(attr.shape) != (n, A, L):
		rec.violation(cls, params, dict(desc, what="processed shape %s" % (
			tuple(attr.shape),)), mech="C04/shape")
		return
	for i in range(n):
		lhs = float(attr[i].sum())
		rhs = float(fx[i] - fr[i].mean())
		tol = 1e-8 * (1 + float(attr[i].abs().sum()) + abs(float(fx[i])) +
			float(fr[i].abs().mean()))
		if not (abs(lhs - rhs) <= tol) and not amb:
			rec.violation(cls, params, dict(desc, what="processed "
				"completeness: sum(attributions) != f(x) - mean f(ref)",
				example=i, sum_attr=lhs, output_diff=rhs,
				abs_error=abs(lhs - rhs)), mech=mech(
				"C04/processed-completeness"))
			return
	conv = [w for w in list(wlog) + list(wlog2) if issubclass(w.category,
		RuntimeWarning) and "onvergence" in str(w.message)]
	if conv and not amb:
		rec.violation(cls, params, dict(desc, what="convergence warning "
			"emitted although completeness holds", warning=str(
			conv[0].message)[:300]), mech=mech("C04/convergence-warning"))
		return
	if amb:
		rec.inconclusive(cls, params, "ambiguous delta_in band")
		return
	differs = bool((X[:, None] != used).any())
	rec.held(cls, params, nontrivial=has_nl and differs)


def two_pool_spec(r, A, L, act):
	for _ in range(50):
		c1, c2 = r.randint(1, 3), r.randint(1, 4)
		k1, k2 = r.randint(2, 4), r.randint(2, 3)
		spec = [{"t": "conv", "cin": A, "cout": c1, "k": r.randint(1, 3),
			"stride": 1, "dil": r.choice([1, 2, 3]), "pad": 0},
			{"t": "act", "name": act},
			{"t": "maxpool", "k": k1, "stride": r.randint(1, k1), "pad": 0,
			"dil": 1, "ceil": False},
			{"t": "conv", "cin": c1, "cout": c2, "k": r.randint(1, 3),
			"stride": 1, "dil": r.choice([1, 2]), "pad": r.choice([0, 1, 3])},
			{"t": "act", "name": r.choice(["ReLU", "ReLU", "LeakyReLU",
			"ELU"])},
			{"t": "maxpool", "k": k2, "stride": r.randint(1, k2),
			"pad": r.choice([0, k2 // 2]), "dil": 1, "ceil": False},
			{"t": "flatten"}]
		C, Lc, ok = A, L, True
		for s_ in spec[:-1]:
			Lo = dls.out_len(s_, C, Lc)
			if Lo is None:
				ok = False
				break
			Lc = Lo
			if s_["t"] == "conv":
				C = s_["cout"]
		if ok:
			spec.append({"t": "linear", "in": C * Lc, "out": r.randint(1,
				3)})
			return spec
	return dls.gen_arch(r, A, L, maxpool="any", force_act=act)


def plan(tier, seed):
	n_arch = 160 if tier == "quick" else 40000
	per = 8 if tier == "quick" else 250
	units = []
	for k in range(0, n_arch, per):
		units.append({"cls": "arch", "k0": k, "k1": min(n_arch, k + per),
			"seed": seed, "weight": per})
	return units


def gen_case(seed, k):
	r = gen.pyrng("C04", seed, k)
	A = r.choice([2, 3, 4, 4, 5])
	L = r.randint(6, 24)
	mode = k % 4
	maxpool = ("none", "disjoint", "any", "any")[mode]
	force = dls.ACT_NAMES[k % len(dls.ACT_NAMES)]
	spec = dls.gen_arch(r, A, L, maxpool=maxpool, force_act=force)
	if k % 8 == 5:
		# two max-pooling layers in sequence, integer weights (tied and
		# coinciding activations are frequent): the later pool's fallback
		# to its ordinary gradient must not disturb the earlier pool's rule
		spec = two_pool_spec(r, A, L, force)
	n = r.randint(1, 3)
	ns = r.randint(1, 6)
	refs = r.choice(["given", "given", "dinuc", "shuffle"])
	if k % 16 == 11:
		refs = "custom"
	if L < 8 and refs == "dinuc":
		refs = "shuffle"
	return {"A": A, "L": L, "spec": spec, "wseed": r.randrange(10 ** 6),
		"weights": "int" if (k % 7 == 3 or k % 8 == 5) else "big" if k % 7 == 5
		else "float", "n": n,
		"n_shuffles": ns, "batch_size": r.choice([1, 2, 3, n * ns,
		n * ns + 1, 32]), "target": r.randrange(dls.n_targets(spec)),
		"refs": refs, "near": r.random() < 0.4, "iseed": r.randrange(10 ** 6),
		"refkind": r.choice(["onehot", "onehot", "onehot", "zeros",
		"uniform", "soft", "onehotN"]),
		"prior_override_call": k % 5 == 2, "user_hooks": k % 6 == 4,
		"random_state": r.randrange(1000)}


def run_unit(unit, rec):
	for k in range(unit["k0"], unit["k1"]):
		params = gen_case(unit["seed"], k)
		npool = sum(1 for s in params["spec"] if s["t"] == "maxpool")
		cls = "arch-" + ("two-maxpool" if npool >= 2 else "maxpool" if npool
			else "plain")
		run_case(cls, params, rec)
