"""C06  Attributions do not depend on batch size, co-batched examples or order.

Differential monitor at the API boundary of deep_lift_shap: a baseline call
that processes all example-reference pairs in one batch is compared with calls
that differ only in batch_size (every value 1..n*n_shuffles+1), in the subset
or permutation of examples passed, or not at all (repetition).  Examples,
references and extra arguments are all distinct, so any bookkeeping slip moves
a large value to the wrong row.
"""

import copy

import numpy
import torch

from .. import gen
from ..refs import dls

ID = "C06"
LEVEL = "exploration"
RULE = ("one case = one (model, inputs, reference mode, output mode) with ALL "
	"batch sizes 1..n*n_shuffles+1 compared against the single-batch "
	"baseline, plus random subsets, permutations and a repeated call.  "
	"Non-trivial = n >= 2 and n_shuffles >= 2 and at least one compared "
	"batch size neither divides nor is a multiple of n_shuffles (a batch "
	"straddles two examples); distinct = distinct (model, inputs, modes).")
ASSUMPTIONS = [
	"attributions compared at 1e-10 relative (BLAS may reassociate across "
	"batch shapes); references and repeated calls compared bit-for-bit",
	"integer random_state or explicit reference tensor (random_state=None is "
	"outside the statement)",
]
REQUIRED = {"batch_sizes_compared": 100, "subset_calls": 10,
	"permutation_calls": 10}
TECHNIQUE = ("runtime monitoring: differential oracle over batch sizes / "
	"subsets / permutations / repetitions of the same deep_lift_shap call")


class ArgModel(torch.nn.Module):
	"""Sequential body plus per-example extra arguments entering the output
	through a non-linearity (so they influence the multipliers)."""

	def __init__(self, body, n_out, seed):
		super().__init__()
		self.body = body
		g = torch.Generator().manual_seed(seed)
		self.V = torch.nn.Parameter(torch.randn(3, n_out, generator=g,
			dtype=torch.float64))
		self.act = torch.nn.Tanh()

	def forward(self, X, a, b=None):
		h = self.body(X) + a @ self.V
		if b is not None:
			h = h * (1 + b[:, :1])
		return self.act(h)


class BNTail(torch.nn.Module):
	"""body followed by a BatchNorm over the outputs.  Before every call the
	model is put into a mixed state (root in eval mode, the batch-norm layer
	in train mode): deep_lift_shap must evaluate it in eval mode, otherwise
	the result depends on the batch composition and the running statistics
	drift from call to call."""

	def __init__(self, body, n_out, seed):
		super().__init__()
		self.body = body
		self.bn = torch.nn.BatchNorm1d(n_out, dtype=torch.float64)
		g = torch.Generator().manual_seed(seed)
		with torch.no_grad():
			self.bn.running_mean.copy_(torch.randn(n_out, generator=g,
				dtype=torch.float64))
			self.bn.running_var.copy_(torch.rand(n_out, generator=g,
				dtype=torch.float64) + 0.5)
			self.bn.weight.copy_(torch.randn(n_out, generator=g,
				dtype=torch.float64))
		# a non-linearity and a mixing layer after the normalisation (the
		# batch-sum of a batch-normalised feature is constant, so without
		# them train-mode statistics would give zero gradients everywhere)
		self.act = torch.nn.Tanh()
		self.mix_layer = torch.nn.Linear(n_out, n_out, dtype=torch.float64)
		with torch.no_grad():
			for p_ in self.mix_layer.parameters():
				p_.copy_(torch.randn(p_.shape, generator=g,
					dtype=torch.float64))

	def forward(self, X, *args):
		return self.mix_layer(self.act(self.bn(self.body(X, *args))))

	def mix(self):
		self.eval()
		self.bn.train()


def rel_close(a, b, tol=1e-10):
	if a.shape != b.shape:
		return False
	scale = max(1.0, float(b.abs().max()))
	return bool(((a - b).abs() <= tol * scale).all())


def run_case(cls, params, rec):
	from tangermeme.deep_lift_shap import deep_lift_shap
	from tangermeme import ersatz
	spec = params["spec"]
	A, L, n, ns = params["A"], params["L"], params["n"], params["n_shuffles"]
	body = dls.build(spec, params["wseed"])
	r = gen.pyrng("C06in", params["iseed"])
	X = dls.random_onehot(r, n, A, L)
	# make the examples pairwise distinct
	for i in range(n):
		X[i, :, 0] = 0
		X[i, i % A, 0] = 1
	args = None
	model = body
	if params["n_args"] > 0:
		model = ArgModel(body, dls.n_targets(spec), params["wseed"] + 1)
		a = torch.randn(n, 3, dtype=torch.float64,
			generator=torch.Generator().manual_seed(params["iseed"]))
		args = (a,)
		if params["n_args"] > 1:
			b = torch.arange(n, dtype=torch.float64)[:, None] / 7
			if params.get("scale_outlier"):
				# one example whose activations (and example-reference
				# differences) are ~1e7 times larger than those of the
				# others, whose differences are scaled down to ~1e-3:
				# anything computed "relative to the batch" shows
				b = torch.full((n, 1), -1 + 1e-3, dtype=torch.float64)
				b[params["scale_outlier"] % n] = 1e7
			args = (a, b)
	if params.get("bn_train"):
		model = BNTail(model, dls.n_targets(spec), params["wseed"] + 2)
		rec.count("bn_mixed_mode_models")
	refmode = params["refmode"]
	mode = params["mode"]
	kw = dict(target=params["target"], device="cpu")
	kw.update({"processed": {}, "raw": {"raw_outputs": True},
		"hypothetical": {"hypothetical": True}}[mode])
	retref = params["return_references"]
	if refmode == "tensor":
		refs = dls.random_onehot(r, n * ns, A, L).reshape(n, ns, A, L)
		kw["references"] = refs
	else:
		kw["references"] = {"dinuc": ersatz.dinucleotide_shuffle,
			"shuffle": ersatz.shuffle}[refmode]
		kw["n_shuffles"] = ns
		kw["random_state"] = params["random_state"]
		sk = params.get("seedkind", "int")
		if sk == "npint":
			# seeds / counts read from an array
			kw["random_state"] = numpy.int64(params["random_state"])
			kw["n_shuffles"] = numpy.int64(ns)
			rec.count("numpy_integer_seed_cases")
		elif sk == "large":
			# a legal integer seed past 2**31 (e.g. a millisecond timestamp);
			# the plain shuffle hands its seed to numpy's RandomState, which
			# takes values below 2**32
			kw["random_state"] = (1759536000123 + params["random_state"]
				if refmode == "dinuc" else 2 ** 31 + 5 +
				params["random_state"])
			rec.count("large_seed_cases")
	if retref:
		kw["return_references"] = True
	desc = {"arch": dls.describe(spec), "n": n, "n_shuffles": ns,
		"mode": mode, "refmode": refmode, "n_args": params["n_args"],
		"return_references": retref}

	def run(idx, batch_size):
		xa = X[idx]
		k2 = dict(kw)
		if refmode == "tensor":
			k2["references"] = kw["references"][idx]
		a2 = None if args is None else tuple(a[idx] for a in args)
		# every call hands its tensors over in another memory layout
		lay = gen.layout_of(params, repr([int(i) for i in idx]), batch_size)
		rec.setadd("layouts", lay)
		if lay != "plain":
			rec.count("nonplain_layout_calls")
		xa = gen.relayout(xa, lay)[0]
		if refmode == "tensor":
			k2["references"] = gen.relayout(k2["references"], lay)[0]
		if a2 is not None:
			a2 = tuple(gen.relayout(t, lay)[0] for t in a2)
		if params.get("bn_train"):
			model.mix()
		mon = gen.Immutable(X=xa, **({} if a2 is None else {"arg%d" % q: t
			for q, t in enumerate(a2)}))
		st, val = gen.call(deep_lift_shap, model, xa, args=a2,
			batch_size=batch_size, **k2)
		if st == "ok" and mon.changed():
			return "mutated", mon.changed()
		if st == "raise":
			return "raise", val
		if retref:
			return "ok", (val[0], val[1])
		return "ok", (val, None)

	full = list(range(n))
	st, base = run(full, n * ns + 3)
	if st != "ok":
		if st == "raise" and refmode != "tensor":
			# a refusal, not a violation, when the reference function itself
			# refuses one of these sequences (no diversity to shuffle) ...
			for i in range(n):
				for j in range(ns):
					stf, _ = gen.call(kw["references"], X[i:i + 1], n=1,
						random_state=int(params["random_state"]) + j)
					if stf == "raise":
						rec.refusal(cls, params, repr(base)[:200])
						return
			# ... or when an undocumented kind of seed object is refused
			if params.get("seedkind", "int") != "int":
				rec.refusal(cls, params, "seed kind %s refused: %s" % (
					params["seedkind"], repr(base)[:120]))
				return
		rec.violation(cls, params, dict(desc, what="baseline call: " + st,
			error=repr(base)[:300]), mech="C06/" + st)
		return
	b_attr, b_ref = base
	# call history: after the baseline, a call that overrides the built-in
	# rules; every later call must still reproduce the baseline
	if params.get("prior_override_call"):
		def plain_handler(module, grad_input, grad_output):
			return grad_input
		ov = {t: plain_handler for t in dls.ACT_TYPES}
		k3 = {k_: v_ for k_, v_ in kw.items() if k_ != "return_references"}
		if refmode == "tensor":
			k3["references"] = kw["references"]
		gen.call(deep_lift_shap, copy.deepcopy(model), X, args=args,
			additional_nonlinear_ops=ov, **k3)
		rec.count("prior_override_calls")

	refs_all = [None]
	has_pool = any(s_["t"] == "maxpool" for s_ in spec)

	def tie_margin(rows):
		"""Smallest top-1/top-2 margin inside a max-pooling window over the
		given examples and their references (see dls.min_pool_margin)."""
		if refs_all[0] is None:
			if refmode == "tensor":
				refs_all[0] = kw["references"]
			else:
				k4 = {k_: v_ for k_, v_ in kw.items() if k_ not in (
					"raw_outputs", "hypothetical")}
				k4["return_references"] = True
				refs_all[0] = deep_lift_shap(copy.deepcopy(model), X,
					args=args, batch_size=n * ns + 3, **k4)[1]
		xs = torch.cat([X[rows], refs_all[0][rows].reshape(-1, A, L)]).type(
			torch.float64)
		extra = () if args is None else tuple(torch.cat([a_[rows],
			a_[rows].repeat_interleave(ns, 0)]) for a_ in args)
		return dls.min_pool_margin(copy.deepcopy(model), (xs,) + extra)

	def compare(tag, idx, got, rows=None):
		attr, ref = got
		exp = b_attr[idx]
		if attr.shape != exp.shape or not all(rel_close(attr[q], exp[q])
			for q in range(len(idx))):
			bad = [int(q) for q in range(len(idx)) if not rel_close(
				attr[q], exp[q])] if attr.shape == exp.shape else "shape"
			if bad != "shape" and has_pool:
				# a tie for a window maximum: which of the tied positions
				# receives the multiplier is decided by rounding noise of the
				# preceding layers (it differs by an ulp between batch
				# compositions), the attribution is not unique there
				real = []
				for q in bad:
					mg = tie_margin([int(idx[q])])
					if mg < 1e-9:
						rec.minv("pool_tie_margin_of_ambiguous_rows", mg)
					else:
						real.append(q)
				if not real:
					return "ambiguous"
				bad = real
			return dict(desc, what="attribution differs from the "
				"single-batch baseline (%s)" % tag, rows=bad, examples=idx,
				max_abs_diff=float((attr - exp).abs().max())
				if attr.shape == exp.shape else None)
		if ref is not None and not torch.equal(ref, b_ref[idx]):
			return dict(desc, what="returned references differ from the "
				"baseline (%s)" % tag, examples=idx)
		return None

	paths = set()
	for bs in range(1, n * ns + 2):
		st, got = run(full, bs)
		if st != "ok":
			rec.violation(cls, params, dict(desc, what="batch_size=%d: %s" % (
				bs, st), error=repr(got)[:300]), mech="C06/" + st)
			return
		d = compare("batch_size=%d" % bs, full, got)
		if d == "ambiguous":
			rec.inconclusive(cls, params, "tie for a max-pooling window maximum")
			return
		rec.count("batch_sizes_compared")
		if d is not None:
			d["batch_size"] = bs
			rec.violation(cls, params, d, mech="C06/batch-size-dependence")
			return
		paths.add((bs % ns == 0, ns % bs == 0 if bs <= ns else False,
			bs < ns, bs > ns))
		rec.setadd("code_paths(bs%ns==0,ns%bs==0,bs<ns,bs>ns)", str((
			bs % ns == 0, bs <= ns and ns % bs == 0, bs < ns, bs > ns)))
	# repetition: bit-identical
	st, again = run(full, params["batch_size"])
	st2, again2 = run(full, params["batch_size"])
	if st != "ok" or st2 != "ok" or not torch.equal(again[0], again2[0]) or (
		retref and not torch.equal(again[1], again2[1])):
		rec.violation(cls, params, dict(desc, what="two identical calls "
			"returned different results", batch_size=params["batch_size"]),
			mech="C06/nondeterministic")
		return
	# subsets and permutations
	rs = gen.pyrng("C06sub", params["iseed"])
	for t in range(params.get("n_variants", 4)):
		if n >= 2:
			k = rs.randint(1, n)
			idx = sorted(rs.sample(full, k))
			bs = rs.randint(1, k * ns + 1)
			st, got = run(idx, bs)
			rec.count("subset_calls")
			if st != "ok":
				rec.violation(cls, params, dict(desc, what="subset %s: %s" % (
					idx, st), error=repr(got)[:300]), mech="C06/" + st)
				return
			d = compare("subset batch_size=%d" % bs, idx, got)
			if d == "ambiguous":
				rec.inconclusive(cls, params, "tie for a max-pooling window maximum")
				return
			if d is not None:
				rec.violation(cls, params, d, mech="C06/co-batch-dependence")
				return
			perm = full[:]
			rs.shuffle(perm)
			bs = rs.randint(1, n * ns + 1)
			st, got = run(perm, bs)
			rec.count("permutation_calls")
			if st != "ok":
				rec.violation(cls, params, dict(desc, what="permutation %s: "
					"%s" % (perm, st), error=repr(got)[:300]),
					mech="C06/" + st)
				return
			d = compare("permutation batch_size=%d" % bs, perm, got)
			if d == "ambiguous":
				rec.inconclusive(cls, params, "tie for a max-pooling window maximum")
				return
			if d is not None:
				rec.violation(cls, params, d, mech="C06/order-dependence")
				return
			# duplicated example in one call
			dup = [idx[0]] + full
			st, got = run(dup, rs.randint(1, len(dup) * ns))
			if st != "ok":
				rec.violation(cls, params, dict(desc, what="duplicated "
					"example: %s" % st, error=repr(got)[:300]),
					mech="C06/" + st)
				return
			d = compare("duplicate", dup, got)
			if d == "ambiguous":
				rec.inconclusive(cls, params, "tie for a max-pooling window maximum")
				return
			if d is not None:
				rec.violation(cls, params, d, mech="C06/co-batch-dependence")
				return
	straddle = n >= 2 and ns >= 2 and any(bs % ns != 0 and ns % bs != 0
		for bs in range(1, n * ns + 2))
	rec.held(cls, params, nontrivial=straddle)


def gen_case(seed, k):
	r = gen.pyrng("C06", seed, k)
	A = r.choice([2, 3, 4, 4])
	L = r.randint(8, 20)
	spec = dls.gen_arch(r, A, L, maxpool=r.choice(["none", "disjoint"]))
	n = r.randint(1, 5)
	ns = r.randint(1, 5)
	if k % 5 == 0:
		n, ns = r.randint(2, 5), r.randint(2, 5)
	if k % 4 == 2:
		n = max(n, 2)
	return {"A": A, "L": L, "spec": spec, "wseed": r.randrange(10 ** 6),
		"n": n, "n_shuffles": ns, "target": r.randrange(dls.n_targets(spec)),
		"iseed": r.randrange(10 ** 6), "n_args": r.choice([0, 0, 1, 2]),
		"refmode": r.choice(["tensor", "dinuc", "shuffle", "dinuc"]),
		"mode": r.choice(["processed", "raw", "hypothetical"]),
		"return_references": r.random() < 0.5,
		"random_state": r.randrange(1000),
		"seedkind": ["int", "npint", "large", "int"][k % 4],
		"batch_size": r.randint(1, n * ns + 1),
		"scale_outlier": (1 + k) if k % 4 == 2 else 0,
		"prior_override_call": k % 4 == 1, "bn_train": k % 4 == 3}


def plan(tier, seed):
	n_models = 32 if tier == "quick" else 3000
	per = 2 if tier == "quick" else 30
	return [{"cls": "model", "k0": k, "k1": min(n_models, k + per),
		"seed": seed, "weight": per} for k in range(0, n_models, per)]


def run_unit(unit, rec):
	for k in range(unit["k0"], unit["k1"]):
		params = gen_case(unit["seed"], k)
		if params["scale_outlier"]:
			params["n_args"] = 2
			rec.count("scale_outlier_cases")
		run_case("diff-" + params["refmode"], params, rec)
