#!/bin/bash
# Re-runs every kept seeded change under /verif/seeded against the current
# checks (quick tier by default):   tools/seedall.sh [quick|thorough] [name ...]
# For each change: fresh scratch worktree of /repo HEAD, apply patch.diff, run
# the property's check with VERIF_REPO pointing at it, remove the worktree.
# Prints one line per change: <name> CAUGHT|MISSED|PATCH-DOES-NOT-APPLY <mechanisms>
HERE="$(cd "$(dirname "${BASH_SOURCE[0]}")/.." && pwd)"
TIER="${1:-quick}"; shift
NAMES="$@"
[ -z "$NAMES" ] && NAMES=$(ls "$HERE/seeded")
mkdir -p /tmp/seedall
for n in $NAMES; do
	d="$HERE/seeded/$n"
	[ -f "$d/patch.diff" ] || continue
	pid=$(/venv/bin/python -c "import json;print(json.load(open('$d/meta.json'))['property'])")
	wt=/tmp/seedall/$n
	git -C /repo worktree remove --force "$wt" >/dev/null 2>&1
	git -C /repo worktree add -q --detach "$wt" HEAD || { echo "$n WORKTREE-FAILED"; continue; }
	if ! git -C "$wt" apply "$d/patch.diff" 2>/dev/null; then
		echo "$n PATCH-DOES-NOT-APPLY"
	else
		out=$(cd "$HERE" && VERIF_REPO="$wt" ./check "$pid" "$TIER" 2>&1)
		rc=$?
		mech=$(echo "$out" | grep -o "mechanism=[^ ]*" | sort -u | tr '\n' ' ')
		if [ $rc -eq 1 ]; then echo "$n CAUGHT by $pid $TIER: $mech"
		else echo "$n MISSED by $pid $TIER (exit $rc)"; fi
	fi
	git -C /repo worktree remove --force "$wt" >/dev/null 2>&1
done
git -C /repo worktree prune
