"""Harness-owned pieces for the DeepLIFT/SHAP monitors (C04, C05, C06, C07):
a generator of sequential architectures, a builder, and an independent
layer-by-layer evaluation of the DeepLIFT rescale rule.

Nothing here imports tangermeme.
"""

import copy
import math

import numpy
import torch

ACTS = {
	"ReLU": lambda: torch.nn.ReLU(),
	"ReLU6": lambda: torch.nn.ReLU6(),
	"RReLU": lambda: torch.nn.RReLU(),
	"SELU": lambda: torch.nn.SELU(),
	"CELU": lambda: torch.nn.CELU(alpha=1.3),
	"GELU": lambda: torch.nn.GELU(),
	"SiLU": lambda: torch.nn.SiLU(),
	"Mish": lambda: torch.nn.Mish(),
	"ELU": lambda: torch.nn.ELU(alpha=0.7),
	"LeakyReLU": lambda: torch.nn.LeakyReLU(0.1),
	"Sigmoid": lambda: torch.nn.Sigmoid(),
	"Tanh": lambda: torch.nn.Tanh(),
	"Softplus": lambda: torch.nn.Softplus(),
	"Softshrink": lambda: torch.nn.Softshrink(0.3),
	"LogSigmoid": lambda: torch.nn.LogSigmoid(),
	"PReLU": lambda: torch.nn.PReLU(),
}
ACT_NAMES = sorted(ACTS)
ACT_TYPES = tuple({type(f()) for f in ACTS.values()})


def conv_out(L, k, stride, dil, pad):
	return (L + 2 * pad - dil * (k - 1) - 1) // stride + 1


def pool_out(L, k, stride, pad, dil=1, ceil=False):
	num = L + 2 * pad - dil * (k - 1) - 1
	if ceil:
		o = -(-num // stride) + 1
		# torch: the last window must start inside the input or left padding
		if (o - 1) * stride >= L + pad:
			o -= 1
		return o
	return num // stride + 1


def _mk(s, dtype=torch.float64):
	t = s["t"]
	if t == "conv":
		return torch.nn.Conv1d(s["cin"], s["cout"], s["k"], stride=s["stride"],
			dilation=s["dil"], padding=s["pad"], dtype=dtype)
	if t == "linear":
		return torch.nn.Linear(s["in"], s["out"], dtype=dtype)
	if t == "avgpool":
		return torch.nn.AvgPool1d(s["k"], stride=s["stride"], padding=s["pad"])
	if t == "maxpool":
		return torch.nn.MaxPool1d(s["k"], stride=s["stride"],
			padding=s["pad"], dilation=s["dil"], ceil_mode=s["ceil"])
	if t == "flatten":
		return torch.nn.Flatten()
	if t == "unflatten":
		return torch.nn.Unflatten(1, (s["c"], s["l"]))
	if t == "act":
		m = ACTS[s["name"]]()
		return m.to(dtype) if s["name"] == "PReLU" else m
	raise AssertionError(t)


def out_len(s, C, L):
	"""Output length of layer spec s on a (1, C, L) input according to torch
	itself, or None if torch rejects the configuration."""
	try:
		with torch.no_grad():
			o = _mk(s)(torch.zeros(1, C, L, dtype=torch.float64))
		return o.shape[-1] if o.shape[-1] >= 1 else None
	except Exception:
		return None


def gen_arch(r, A, L, maxpool="none", acts=None, force_act=None):
	"""-> list of layer specs.  maxpool in {'none', 'disjoint', 'any'}:
	'disjoint' = stride >= kernel, no dilation, no ceil_mode (windows never
	share an input position); 'any' also overlapping / dilated / ceil."""
	acts = acts or ACT_NAMES
	spec = []
	C, Lc = A, L
	n_conv = r.choice([0, 1, 1, 2, 2, 3])
	used_force = False

	def act():
		nonlocal used_force
		if force_act and not used_force:
			used_force = True
			return {"t": "act", "name": force_act}
		return {"t": "act", "name": r.choice(acts)}

	for b in range(n_conv):
		for _ in range(20):
			k = r.randint(1, min(5, Lc))
			stride = r.choice([1, 1, 1, 2, 3])
			dil = r.choice([1, 1, 2, 3])
			pad = r.choice([0, 0, 1, 2, 3])
			if pad > k * dil:
				pad = 0
			cout = r.randint(1, 4)
			cs = {"t": "conv", "cin": C, "cout": cout, "k": k,
				"stride": stride, "dil": dil, "pad": pad}
			Lo = out_len(cs, C, Lc)
			if Lo is not None:
				break
		else:
			cout = r.randint(1, 4)
			cs = {"t": "conv", "cin": C, "cout": cout, "k": 1, "stride": 1,
				"dil": 1, "pad": 0}
			Lo = Lc
		spec.append(cs)
		C, Lc = cout, Lo
		if r.random() < 0.8 or (force_act and not used_force):
			spec.append(act())
		pk = r.random()
		if pk < 0.25 and Lc >= 2:
			k = r.randint(1, min(3, Lc))
			stride = r.randint(1, 3)
			pad = r.choice([0, 0, k // 2])
			ps = {"t": "avgpool", "k": k, "stride": stride, "pad": pad}
			Lo = out_len(ps, C, Lc)
			if Lo is not None:
				spec.append(ps)
				Lc = Lo
		elif pk < 0.6 and maxpool != "none" and Lc >= 2:
			k = r.randint(2, min(4, Lc))
			if maxpool == "disjoint":
				stride, dil, ceil = r.choice([k, k, k + 1]), 1, False
			else:
				stride = r.randint(1, k)
				dil = r.choice([1, 1, 2])
				ceil = r.random() < 0.3
			pad = r.choice([0, 0, k // 2])
			if dil * (k - 1) + 1 > Lc + 2 * pad:
				dil = 1
			ps = {"t": "maxpool", "k": k, "stride": stride, "pad": pad,
				"dil": dil, "ceil": ceil}
			Lo = out_len(ps, C, Lc)
			if Lo is not None:
				spec.append(ps)
				Lc = Lo
				if r.random() < 0.3:
					spec.append(act())
	spec.append({"t": "flatten"})
	width = C * Lc
	if r.random() < 0.15 and width >= 4 and width % 2 == 0:
		# reshape back to (2, width/2), one more conv
		spec.append({"t": "unflatten", "c": 2, "l": width // 2})
		k = r.randint(1, min(3, width // 2))
		spec.append({"t": "conv", "cin": 2, "cout": 2, "k": k, "stride": 1,
			"dil": 1, "pad": 0})
		spec.append(act())
		spec.append({"t": "flatten"})
		width = 2 * (width // 2 - k + 1)
	n_dense = r.choice([1, 1, 2, 2, 3])
	T = r.randint(1, 3)
	for d in range(n_dense):
		out = T if d == n_dense - 1 else r.randint(2, 5)
		spec.append({"t": "linear", "in": width, "out": out})
		width = out
		if d < n_dense - 1 or r.random() < 0.2 or (force_act and
			not used_force):
			spec.append(act())
	return spec


def n_targets(spec):
	for s in reversed(spec):
		if s["t"] == "linear":
			return s["out"]
	raise AssertionError


def build(spec, seed, weights="float", dtype=torch.float64):
	g = torch.Generator().manual_seed(int(seed) % (2 ** 31))
	layers = []
	for s in spec:
		m = _mk(s, dtype)
		layers.append(m)
	model = torch.nn.Sequential(*layers)
	with torch.no_grad():
		for p in model.parameters():
			if weights == "int":
				v = torch.randint(-2, 3, p.shape, generator=g).to(dtype)
				if p.dim() == 1:
					v = v + 0.5       # biases: keep pre-activations off 0
			elif weights == "big":
				# large weights: saturating activations deep in their tails
				v = torch.randn(p.shape, generator=g, dtype=dtype) * 4.0
			else:
				v = torch.randn(p.shape, generator=g, dtype=dtype) * 0.8
			p.copy_(v)
		for m in model:
			if isinstance(m, torch.nn.PReLU):
				m.weight.fill_(0.2)
	return model.eval()


def is_linear_type(m):
	return isinstance(m, (torch.nn.Conv1d, torch.nn.Linear, torch.nn.AvgPool1d,
		torch.nn.Flatten, torch.nn.Unflatten))


def has_bias_free_linearity(spec):
	return all(s["t"] != "act" and s["t"] != "maxpool" for s in spec)


def forward_plain(model, X):
	with torch.no_grad():
		return model(X)


def ref_multipliers(model, x, ref, target):
	"""Independent rescale-rule evaluation for ONE example-reference pair.

	x, ref: (1, A, L) float64.  -> dict(m=(A, L) multipliers w.r.t. x,
	fx, fr = outputs[target], ambiguous = an activation unit has
	1e-7 < |delta_in| < 1e-5, n_units_small = units with |delta_in| < 1e-6,
	n_units = hooked units, min_nonzero_din)"""
	layers = list(model)
	ins_x, ins_r = [], []
	hx, hr = x, ref
	with torch.no_grad():
		for layer in layers:
			ins_x.append(hx)
			ins_r.append(hr)
			hx, hr = layer(hx), layer(hr)
	m = torch.zeros_like(hx)
	m[0, target] = 1.0
	info = {"fx": float(hx[0, target]), "fr": float(hr[0, target]),
		"ambiguous": False, "n_units": 0, "n_units_small": 0,
		"n_units_zero": 0, "min_nonzero_din": math.inf, "has_maxpool": False}
	for layer, ix, ir in zip(reversed(layers), reversed(ins_x),
		reversed(ins_r)):
		if isinstance(layer, ACT_TYPES):
			with torch.no_grad():
				din = ix - ir
				dout = layer(ix) - layer(ir)
			ixg = ix.clone().requires_grad_()
			with torch.enable_grad():
				d = torch.autograd.grad(layer(ixg).sum(), ixg)[0]
			a = din.abs()
			small = a < 1e-6
			ratio = torch.where(small, d, dout / torch.where(small,
				torch.ones_like(din), din))
			m = m * ratio
			info["n_units"] += din.numel()
			info["n_units_small"] += int(small.sum())
			info["n_units_zero"] += int((a == 0).sum())
			nz = a[a > 0]
			if nz.numel():
				info["min_nonzero_din"] = min(info["min_nonzero_din"],
					float(nz.min()))
			if bool(((a > 1e-7) & (a < 1e-5)).any()):
				info["ambiguous"] = True
		elif isinstance(layer, torch.nn.MaxPool1d):
			info["has_maxpool"] = True
			# rescale rule for max-pooling (completeness-preserving split):
			# not needed by C05 (max-pool excluded); kept for information
			with torch.no_grad():
				din = ix - ir
				a = din.abs()
				nz = a[a > 0]
				if nz.numel():
					info["min_nonzero_din"] = min(info["min_nonzero_din"],
						float(nz.min()))
				if bool(((a > 1e-8) & (a < 1e-5)).any()):
					info["ambiguous"] = True
			m = None
			break
		else:
			ixg = ix.clone().requires_grad_()
			with torch.enable_grad():
				out = layer(ixg)
				m = torch.autograd.grad(out, ixg, grad_outputs=m)[0]
	info["m"] = None if m is None else m[0].detach()
	return info


def random_onehot(r, n, A, L, dtype=torch.float64):
	idx = numpy.array([[r.randrange(A) for _ in range(L)] for _ in range(n)])
	a = (idx[:, None, :] == numpy.arange(A)[None, :, None]).astype(
		numpy.float64)
	return torch.from_numpy(a).type(dtype)


def hypothetical_from_multipliers(m, ref):
	"""m, ref: (A, L) -> (A, L): entry [k, p] = sum_c (e_k - ref)[c, p] m[c, p]"""
	A = m.shape[0]
	out = torch.zeros_like(m)
	base = -(ref * m).sum(dim=0)
	for k in range(A):
		out[k] = m[k] + base
	return out


def describe(spec):
	parts = []
	for s in spec:
		t = s["t"]
		if t == "conv":
			parts.append("Conv(%d>%d,k%d,s%d,d%d,p%d)" % (s["cin"], s["cout"],
				s["k"], s["stride"], s["dil"], s["pad"]))
		elif t == "linear":
			parts.append("Lin(%d>%d)" % (s["in"], s["out"]))
		elif t == "avgpool":
			parts.append("Avg(k%d,s%d,p%d)" % (s["k"], s["stride"], s["pad"]))
		elif t == "maxpool":
			parts.append("Max(k%d,s%d,p%d,d%d%s)" % (s["k"], s["stride"],
				s["pad"], s["dil"], ",ceil" if s["ceil"] else ""))
		elif t == "act":
			parts.append(s["name"])
		elif t == "flatten":
			parts.append("Flat")
		elif t == "unflatten":
			parts.append("Unflat(%d,%d)" % (s["c"], s["l"]))
	return "-".join(parts)


def maxpool_class(spec):
	"""Mechanism classifier used by C04's known-finding policy."""
	for s in spec:
		if s["t"] == "maxpool":
			if s["dil"] > 1:
				return "dilated"
			if s["stride"] < s["k"]:
				return "overlapping"
			if s["ceil"]:
				return "ceil"
	return None


def min_nonzero_delta(model, x, ref):
	"""Smallest non-zero |in(x) - in(ref)| over the inputs of ALL hooked units
	(element-wise activations and max-pooling layers) of a sequential model,
	from plain forward passes.  The implementation switches between the
	ordinary gradient and the secant ratio at |delta_in| = 1e-6 (1e-7 for
	max-pooling); a non-zero delta below ~1e-5 legitimately perturbs the
	completeness sum by up to about |delta_in| times the downstream
	multipliers, so such pairs are not decidable at a 1e-8 tolerance."""
	best = math.inf
	hx, hr = x, ref
	with torch.no_grad():
		for layer in model:
			if isinstance(layer, ACT_TYPES + (torch.nn.MaxPool1d,)):
				a = (hx - hr).abs()
				nz = a[a > 0]
				if nz.numel():
					best = min(best, float(nz.min()))
			hx, hr = layer(hx), layer(hr)
	return best


def min_pool_margin(model, inputs):
	"""Smallest (largest - second largest) value inside any max-pooling
	window when `model` (in eval mode) is run on the tuple `inputs`: 0 means
	an exact tie for a window maximum.  On a tie the maximising position is
	decided by rounding noise of the layers before it, so position-wise
	multipliers are not unique there.  Returns inf when there is no pooling
	layer with k >= 2."""
	margins = []

	def hook(mod, inp, out):
		x = inp[0].detach()
		k, s, p, d = (mod.kernel_size, mod.stride, mod.padding, mod.dilation)
		k, s, p, d = [v[0] if isinstance(v, (tuple, list)) else v for v in (k,
			s, p, d)]
		if k < 2:
			return
		span = (k - 1) * d + 1
		xp = torch.nn.functional.pad(x, (p, p + span + s), value=float(
			"-inf"))
		w = xp.unfold(-1, span, s)[..., ::d]
		n_out = out.shape[-1]
		w = w[..., :n_out, :]
		top = torch.topk(w, 2, dim=-1)[0]
		m = top[..., 0] - top[..., 1]
		m = m[torch.isfinite(m)]
		if m.numel():
			margins.append(float(m.min()))

	hs = [m.register_forward_hook(hook) for m in model.modules()
		if isinstance(m, torch.nn.MaxPool1d)]
	was = [(m, m.training) for m in model.modules()]
	try:
		model.eval()
		with torch.no_grad():
			model(*inputs)
	finally:
		for h in hs:
			h.remove()
		for m, t in was:
			m.training = t
	return min(margins) if margins else float("inf")
