"""C13  TOMTOM results are independent of threads, co-processed queries and
their order.

Monitors
  * API boundary of tools.tomtom.tomtom: every execution of a query is compared
    *bitwise* with a baseline in which that query is processed alone on one
    thread; executions differ in thread count, parallel chunk size, threading
    layer (omp / workqueue), position in the query list, which other queries
    are present, duplication.
  * the guarded hook in _tomtom (TANGERMEME_VERIF=1): a trace callback gives
    the per-thread history [(query index, query length), ...] of every run, so
    the evidence states which scratch-reuse transitions (longer -> shorter
    query on the same thread) were actually exercised; and a *poison* value is
    written into the executing thread's scratch buffers before every query.
    Correct code writes every scratch cell before reading it, so results must
    be bit-identical for every poison value; a dependence is an uninitialised
    or stale read, exposed deterministically whatever the schedule.
  * n_nearest: an offline checker over the full row.
"""

import numpy
import torch

from .. import gen

ID = "C13"
LEVEL = "exploration"
REPLAY_ENV = {"NUMBA_NUM_THREADS": "16"}
RULE = ("one case = one (query list with mixed lengths 1-25, target set, "
	"reverse_complement, hashing, n_score_bins) configuration; each is "
	"executed as: every query alone on one thread (baseline), the full list "
	"with 1..16 threads and chunk sizes, permutations (incl. longest-first "
	"per thread then shortest), random subsets, duplications, each under "
	"poison values {none, 0/0, NaN/77, 1e300/-128, -7.25/1}, and n_nearest "
	"1..n_targets; all rows compared bitwise with the baseline.  "
	"Non-trivial = the traced per-thread histories of the configuration "
	"contain at least one longer->shorter transition (scratch reused after "
	"a longer query); distinct = distinct configurations.")
ASSUMPTIONS = [
	"bitwise comparison (float64 bytes; NaN never occurs)",
	"for n_nearest, targets with equal p-values may come in any order",
	"schedules inside the OpenMP runtime cannot be steered; the poison hook "
	"makes schedule-dependent stale reads deterministic instead",
]
REQUIRED = {"many_query_calls": 1, "trace_events": 200, "longer_to_shorter_transitions": 20,
	"poisoned_runs": 20, "executions_compared": 100, "nearest_rows_checked": 50,
	"boundscheck_runs": 4}
TECHNIQUE = ("runtime monitoring: bitwise differential vs single-query "
	"single-thread baseline over thread counts / orders / subsets; guarded "
	"in-kernel trace hook (per-thread histories) and poison differential "
	"(MSan substitute); offline n_nearest checker")
TIMEOUT = {"quick": 1200, "thorough": 7200}
CHUNKS = {"quick": 12, "thorough": 32}

LENS = [1, 1, 2, 3, 5, 8, 13, 20, 25]
POISONS = [None, (0.0, 0), (float("nan"), 77), (1e300, -128), (-7.25, 1)]


def make_pwm(nr, r, length, grid):
	if grid == "coarse":
		cols = []
		for _ in range(length):
			k = r.choice([1, 2, 4])
			v = numpy.zeros(4)
			for a in r.sample(range(4), k):
				v[a] = 1.0 / k
			cols.append(v)
		return numpy.array(cols).T.copy()
	return nr.dirichlet([r.choice([0.1, 0.5, 2.0])] * 4, size=length).T.copy()


def make_onehot(r, length):
	a = numpy.zeros((4, length))
	for j in range(length):
		a[r.randrange(4), j] = 1.0
	return a


def make_case(params):
	r = gen.pyrng("C13", params["cseed"])
	nr = gen.nprng("C13", params["cseed"])
	grid = params["grid"]
	Qs = [make_pwm(nr, r, r.choice(LENS), grid) for _ in range(params["n_q"])]
	# make sure long and short queries are both present
	Qs[0] = make_pwm(nr, r, 25, grid)
	Qs[-1] = make_pwm(nr, r, 1, grid)
	Ts = [make_pwm(nr, r, r.randint(1, 25), grid)
		for _ in range(params["n_t"])]
	if params.get("degenerate"):
		# queries without any score range (flat or unknown columns against
		# one-hot targets: every target column is equally far) next to
		# ordinary queries
		Ts = [make_onehot(r, r.randint(1, 25)) for _ in Ts]
		flat = numpy.full((4, r.choice([1, 2, 3])), 0.25)
		unknown = numpy.concatenate([make_onehot(r, 1), numpy.zeros((4,
			r.choice([1, 2])))], axis=1)
		Qs[1] = flat
		Qs[len(Qs) // 2] = unknown
		Qs[-2] = flat.copy()
		Qs[0] = make_onehot(r, 25)
	if params.get("extra_row"):
		# targets with one row more than the queries (an alphabet with an
		# extra symbol, as in the package's own homopolymer test)
		Ts = [numpy.ascontiguousarray(numpy.vstack([t, (nr.random((1,
			t.shape[1])) < .4).astype(t.dtype)])) for t in Ts]
	if params.get("dup_targets") and len(Ts) >= 3:
		# identical targets: exact p-value ties inside every row
		Ts[-1] = Ts[0].copy()
		Ts[len(Ts) // 2] = Ts[0].copy()
	return Qs, Ts


def tt():
	from tangermeme.tools import tomtom as TT
	return TT


def set_poison(TT, poison):
	st = getattr(TT, "_verif_state", None)
	if st is None:
		return False
	st["poison"] = poison
	return True


def take_events(TT):
	st = getattr(TT, "_verif_state", None)
	if st is None:
		return []
	ev = list(st["events"])
	st["events"].clear()
	return ev


def histories(events):
	h = {}
	for i, pid, nq in events:
		h.setdefault(pid, []).append((i, nq))
	return h


def same_bits(a, b):
	return a.shape == b.shape and a.dtype == b.dtype and \
		a.tobytes() == b.tobytes()


def run_tomtom(TT, Qs, Ts, kw, n_jobs, chunk=0):
	import numba
	numba.set_parallel_chunksize(chunk)
	try:
		st, val = gen.call(TT.tomtom, Qs, Ts, n_jobs=n_jobs, **kw)
	finally:
		numba.set_parallel_chunksize(0)
	if st == "ok":
		val = val.numpy().copy()
	return st, val


def case_many(cls, params, rec):
	"""One call with so many queries that their concatenated length passes
	2**15 columns (and, thorough tier, 2**16); rows of queries taken from the
	start, from around each boundary and from the end must equal - bit for
	bit - the rows of the same queries processed in a call of their own."""
	TT = tt()
	r = gen.pyrng("C13many", params["cseed"])
	nr = gen.nprng("C13many", params["cseed"])
	Qs = [make_pwm(nr, r, r.randint(8, 12), "fine")
		for _ in range(params["n_q"])]
	Ts = [make_pwm(nr, r, r.randint(4, 16), "fine")
		for _ in range(params["n_t"])]
	kw = dict(n_score_bins=100, n_target_bins=None,
		reverse_complement=params["rc"])
	desc = {"n_queries": len(Qs), "total_query_columns": sum(q.shape[1]
		for q in Qs), "n_targets": len(Ts), "rc": params["rc"]}
	st, big = run_tomtom(TT, Qs, Ts, kw, params["n_jobs"])
	if st == "raise":
		rec.violation(cls, params, dict(desc, what="tomtom raised",
			error=repr(big)[:300]), mech="C13/raised")
		return
	csum = numpy.cumsum([0] + [q.shape[1] for q in Qs])
	groups = [list(range(0, 6)), list(range(len(Qs) - 6, len(Qs)))]
	for edge in (2 ** 15, 2 ** 16):
		if csum[-1] > edge:
			i = int(numpy.searchsorted(csum, edge))
			groups.append(list(range(max(0, i - 4), min(len(Qs), i + 4))))
	groups.append(sorted(r.sample(range(len(Qs)), 6)))
	for g in groups:
		st, small = run_tomtom(TT, [Qs[i] for i in g], Ts, kw, 1)
		if st == "raise" or not numpy.array_equal(big[:, g], small):
			bad = [g[j] for j in range(len(g)) if st != "raise" and not
				numpy.array_equal(big[:, g[j]], small[:, j])]
			rec.violation(cls, params, dict(desc, what="rows of queries %s "
				"differ between the large call and a call with only these "
				"queries" % bad, first_column_of_query=int(csum[bad[0]])
				if bad else None, error=repr(small)[:200] if st == "raise"
				else None), mech="C13/co-query-dependence")
			return
	rec.count("many_query_calls")
	rec.maxv("max_total_query_columns", float(csum[-1]))
	rec.held(cls, params, nontrivial=True)


def run_case(cls, params, rec):
	import numba
	if cls.startswith("many-queries"):
		return case_many(cls, params, rec)
	if cls.startswith("annotate"):
		return case_annotate(cls, params, rec)
	if cls.startswith("pyfunc-boundscheck"):
		return case_boundscheck(cls, params, rec)
	TT = tt()
	Qs, Ts = make_case(params)
	nq, nt = len(Qs), len(Ts)
	kw = dict(n_score_bins=params["n_score_bins"],
		n_target_bins=params["n_target_bins"],
		reverse_complement=params["rc"])
	qlens = [q.shape[1] for q in Qs]
	desc = {"query_lengths": qlens, "target_lengths": [t.shape[1]
		for t in Ts], "rc": params["rc"], "n_score_bins":
		params["n_score_bins"], "n_target_bins": params["n_target_bins"],
		"grid": params["grid"]}
	maxthreads = numba.config.NUMBA_NUM_THREADS
	have_hook = set_poison(TT, None)
	if not have_hook:
		rec.count("hook_missing")
	take_events(TT)
	# baseline: every query alone on one thread, no poison
	base = []
	for q in Qs:
		st, val = run_tomtom(TT, [q], Ts, kw, 1)
		if st == "raise":
			rec.violation(cls, params, dict(desc, what="tomtom raised on a "
				"single query", error=repr(val)[:300]), mech="C13/raised")
			return
		base.append(val[:, 0])
	base = numpy.stack(base, axis=1)          # (5, nq, nt)
	take_events(TT)
	rec.minv("min_alignment_score_seen", float(base[1].min()))
	r = gen.pyrng("C13run", params["cseed"])
	transitions = 0
	seen_hist = set()

	def execute(tag, order, n_jobs, chunk, poison):
		"""order: list of indices into Qs.  -> None or (detail, mech)"""
		nonlocal transitions
		set_poison(TT, poison)
		before = numba.get_num_threads()
		st, val = run_tomtom(TT, [Qs[i] for i in order], Ts, kw, n_jobs,
			chunk)
		after = numba.get_num_threads()
		set_poison(TT, None)
		ev = take_events(TT)
		rec.count("trace_events", len(ev))
		if poison is not None:
			rec.count("poisoned_runs")
		if st == "raise":
			return (dict(desc, what="tomtom raised (%s)" % tag,
				error=repr(val)[:300]), "C13/raised")
		if before != after:
			return (dict(desc, what="numba.get_num_threads() changed from %d "
				"to %d across the call (%s)" % (before, after, tag)),
				"C13/num-threads-not-restored")
		h = histories(ev)
		for pid, lst in h.items():
			seen_hist.add(tuple(n for _, n in lst))
			for (i0, n0), (i1, n1) in zip(lst, lst[1:]):
				if n1 < n0:
					transitions += 1
		rec.setadd("thread_ids_seen", len(h))
		if ev:
			# every query must have been worked on - itself or a query with
			# exactly the same content (identical queries may legitimately
			# be computed once and copied) - and none twice
			traced = [i for i, _, _ in ev]
			content = [Qs[i].tobytes() + str(Qs[i].shape).encode()
				for i in order]
			done = {content[i] for i in traced if 0 <= i < len(order)}
			if len(set(traced)) != len(traced) or any(not 0 <= i < len(order)
				for i in traced) or any(c not in done for c in content):
				return (dict(desc, what="trace: queries processed %s, "
					"expected each of 0..%d (or an identical query) once "
					"(%s)" % (sorted(traced)[:40], len(order) - 1, tag)),
					"C13/query-skipped-or-repeated")
		rec.count("executions_compared", len(order))
		exp = base[:, order]
		if not same_bits(val, exp):
			bad = [k for k in range(len(order)) if not same_bits(val[:, k],
				exp[:, k])]
			k = bad[0] if bad else 0
			f = int(numpy.argwhere(val[:, k] != exp[:, k])[0][0]) if bad \
				else -1
			d = dict(desc, what="result of a query differs from the "
				"single-query single-thread baseline (%s)" % tag,
				n_jobs=n_jobs, chunk=chunk, poison=str(poison),
				order=order if len(order) <= 40 else "...",
				rows_differing=bad[:10], first_query=order[k],
				first_query_length=qlens[order[k]],
				field="p score offset overlap strand".split()[f],
				got=val[f, k].tolist()[:12], expected=exp[f, k].tolist()[:12],
				thread_histories={str(p): [n for _, n in l]
					for p, l in list(h.items())[:6]})
			mech = "C13/poison-dependence" if poison is not None else (
				"C13/schedule-dependence" if n_jobs != 1 else
				"C13/co-query-dependence")
			return (d, mech)
		return None

	full = list(range(nq))
	plan_ = []
	threads = sorted({1, 2, min(5, maxthreads), maxthreads})
	for t in threads:
		plan_.append(("full t=%d" % t, full, t, 0))
	plan_.append(("chunk1", full, min(4, maxthreads), 1))
	plan_.append(("chunk3", full, min(4, maxthreads), 3))
	# longest first on every thread, then the shortest (omp static blocks)
	for t in (min(4, maxthreads), 1):
		blocks = [full[i::t] for i in range(t)]
		order = []
		for b in blocks:
			order.extend(sorted(b, key=lambda i: -qlens[i]))
		plan_.append(("long-first t=%d" % t, order, t, 0))
	plan_.append(("reversed", full[::-1], min(3, maxthreads), 0))
	# copies of the first query at the start of other threads' chunks, the
	# whole list twice, one query many times
	for t in (2, 3, 4):
		if t <= maxthreads:
			plan_.append(("list-twice t=%d" % t, full + full, t, 0))
			plan_.append(("first-query-interleaved t=%d" % t,
				[x for q in full[1:t + 2] for x in (0, q)], t, 0))
	plan_.append(("one-query-repeated", [0] * 7, min(3, maxthreads), 0))
	plan_.append(("last-query-repeated", [nq - 1] * 5, min(4, maxthreads), 0))
	for _ in range(params.get("n_perm", 3)):
		p = full[:]
		r.shuffle(p)
		plan_.append(("perm", p, r.choice(threads), r.choice([0, 0, 1, 2])))
	for _ in range(params.get("n_sub", 3)):
		k = r.randint(1, nq)
		sub = r.sample(full, k)
		plan_.append(("subset", sub, r.choice(threads), 0))
		dup = [r.choice(full) for _ in range(r.randint(2, nq + 3))]
		plan_.append(("dups", dup, r.choice(threads), 0))
	for (tag, order, t, chunk) in plan_:
		if not have_hook:
			pl = [None]
		elif tag.startswith(("full", "long-first", "chunk")):
			pl = POISONS
		else:
			pl = [None, POISONS[2 + len(tag) % 2]]
		for poison in pl:
			bad = execute(tag, order, t, chunk, poison)
			if bad is not None:
				rec.violation(cls, params, bad[0], mech=bad[1])
				return
	# n_nearest
	nn_base = {}
	for n in sorted({1, 2, nt // 2 or 1, nt}):
		kw2 = dict(kw, n_nearest=n)
		for t, poison in ((1, None), (min(4, maxthreads), POISONS[2]
			if have_hook else None)):
			set_poison(TT, poison)
			st, val = run_tomtom(TT, Qs, Ts, kw2, t)
			set_poison(TT, None)
			take_events(TT)
			if st == "raise":
				rec.violation(cls, params, dict(desc, what="tomtom raised "
					"with n_nearest=%d" % n, error=repr(val)[:300]),
					mech="C13/raised")
				return
			if val.shape != (6, nq, n):
				rec.violation(cls, params, dict(desc, what="n_nearest=%d "
					"output shape %s" % (n, val.shape)),
					mech="C13/n-nearest")
				return
			# the n_nearest row of a query is also bit-identical to the one
			# obtained when the query is processed alone on one thread
			# (which of several tied targets is returned must not depend on
			# the schedule either)
			if n not in nn_base:
				rows_ = []
				for q in Qs:
					st1, v1 = run_tomtom(TT, [q], Ts, kw2, 1)
					rows_.append(v1[:, 0] if st1 == "ok" else None)
				nn_base[n] = rows_
				take_events(TT)
			for qi in range(nq):
				b_ = nn_base[n][qi]
				if b_ is not None and not same_bits(numpy.ascontiguousarray(
					val[:, qi]), numpy.ascontiguousarray(b_)):
					rec.violation(cls, params, dict(desc, what="n_nearest=%d "
						"row of query %d differs from the row obtained when "
						"the query is processed alone" % (n, qi), n_jobs=t,
						poison=str(poison), alone=b_.tolist(),
						in_call=val[:, qi].tolist()),
						mech="C13/n-nearest-schedule-dependence")
					return
			for qi in range(nq):
				rec.count("nearest_rows_checked")
				idx = val[5, qi]
				ii = idx.astype(int)
				why = None
				if (ii != idx).any() or (ii < 0).any() or (ii >= nt).any() \
					or len(set(ii.tolist())) != n:
					why = "indices %s invalid / not distinct" % idx.tolist()
				elif (numpy.diff(val[0, qi]) < 0).any():
					why = "p-values not ascending: %s" % val[0, qi].tolist()
				elif sorted(base[0, qi].tolist())[:n] != val[0, qi].tolist():
					why = "p-values %s are not the %d smallest of the full " \
						"row %s" % (val[0, qi].tolist(), n, sorted(base[0,
						qi].tolist())[:n + 2])
				elif not same_bits(val[:5, qi], numpy.ascontiguousarray(
					base[:, qi][:, ii])):
					why = "fields of the returned targets differ from the " \
						"full row"
				if why:
					rec.violation(cls, params, dict(desc, what="n_nearest=%d "
						"query %d (length %d): %s" % (n, qi, qlens[qi], why),
						poison=str(poison), n_jobs=t), mech="C13/n-nearest")
					return
	rec.count("longer_to_shorter_transitions", transitions)
	rec.count("distinct_thread_histories", len(seen_hist))
	rec.held(cls, params, nontrivial=transitions > 0)


def case_boundscheck(cls, params, rec):
	"""The parallel driver's pure-Python body (.py_func) with the inner
	kernels compiled under NUMBA_BOUNDSCHECK=1: an out-of-range index in
	_integer_distances_and_histogram / _p_value_backgrounds / _p_values /
	_merge_rc_results raises IndexError instead of touching foreign memory
	(inside the compiled prange body the exception would be swallowed)."""
	import os
	TT = tt()
	if os.environ.get("NUMBA_BOUNDSCHECK") != "1":
		rec.inconclusive(cls, params, "NUMBA_BOUNDSCHECK not set")
		return
	Qs, Ts = make_case(params)
	kw = dict(n_score_bins=params["n_score_bins"],
		n_target_bins=params["n_target_bins"],
		reverse_complement=params["rc"])
	desc = {"query_lengths": [q.shape[1] for q in Qs], "target_lengths":
		[t.shape[1] for t in Ts], "rc": params["rc"], "n_score_bins":
		params["n_score_bins"], "n_target_bins": params["n_target_bins"],
		"grid": params["grid"]}
	orig = TT._tomtom
	if not hasattr(orig, "py_func"):
		rec.inconclusive(cls, params, "_tomtom has no py_func")
		return
	set_poison(TT, None)
	st0, base = run_tomtom(TT, Qs, Ts, kw, 1)
	TT._tomtom = orig.py_func
	try:
		st, val = run_tomtom(TT, Qs, Ts, kw, 1)
		stn, valn = run_tomtom(TT, Qs, Ts, dict(kw, n_nearest=min(2,
			len(Ts))), 1)
	finally:
		TT._tomtom = orig
	take_events(TT)
	for s_, v_ in ((st, val), (stn, valn)):
		if s_ == "raise":
			rec.violation(cls, params, dict(desc, what="bounds-checked "
				"kernels raised", error=repr(v_)[:300]),
				mech="C13/out-of-bounds-access" if isinstance(v_, IndexError)
				else "C13/raised")
			return
	rec.count("boundscheck_runs")
	if st0 == "ok" and not (val.shape == base.shape and numpy.allclose(val,
		base, rtol=1e-12, atol=1e-12, equal_nan=True)):
		rec.violation(cls, params, dict(desc, what="bounds-checked "
			"sequential driver gives another result than the compiled "
			"parallel driver"), mech="C13/driver-differs")
		return
	rec.held(cls, params, nontrivial=True)


def case_annotate(cls, params, rec):
	"""annotate_seqlets: the row of every seqlet in a full / subset / permuted
	call equals the row obtained when that seqlet is annotated alone.  The
	sequences contain unknown (all-zero) columns, and pairs of seqlets that are
	identical except that one has an unknown column where the other has an
	'A', so that seqlets cannot be told apart by their arg-max."""
	import pandas
	from tangermeme.annotate import annotate_seqlets
	r = gen.pyrng("C13ann", params["cseed"])
	nr = gen.nprng("C13ann", params["cseed"])
	L = 60
	s0 = list(gen.rand_seq(r, L))
	npos = sorted(r.sample(range(2, L - 2), 6))
	for p in npos:
		s0[p] = "A"
	s1 = list(s0)
	for p in npos:
		s1[p] = "N"
	s2 = list(gen.rand_seq(r, L))
	s2[10] = "N"
	seqs = ["".join(s0), "".join(s1), "".join(s2)]
	X = gen.ohe(seqs, dtype=torch.float64)
	rows = []
	for p in npos[:4]:
		a = max(0, p - r.randint(1, 6))
		b = min(L, p + r.randint(2, 8))
		rows.append((0, a, b))
		rows.append((1, a, b))          # same span, N instead of A at p
	for _ in range(max(0, params["n_q"] - len(rows))):
		ln = r.choice(LENS)
		st_ = r.randint(0, L - ln)
		rows.append((r.randrange(3), st_, st_ + ln))
	r.shuffle(rows)
	seqlets = gen.reindex(pandas.DataFrame(rows, columns=["example_idx",
		"start", "end"]), "C13", params["cseed"])
	motifs = {"m%d" % i: torch.from_numpy(make_pwm(nr, r, r.randint(2, 20),
		"fine")) for i in range(params["n_t"])}
	n = params["n_nearest"]
	kw = dict(n_nearest=n, reverse_complement=params["rc"])
	desc = {"sequences": seqs, "seqlets": rows, "n_nearest": n}
	bidx, bp = [], []
	for k in range(len(rows)):
		st, val = gen.call(annotate_seqlets, X, seqlets.iloc[k:k + 1], motifs,
			n_jobs=1, **kw)
		if st == "raise":
			if (X[rows[k][0], :, rows[k][1]:rows[k][2]].sum() == 0):
				bidx.append(None)
				bp.append(None)
				continue
			rec.violation(cls, params, dict(desc, what="annotate_seqlets "
				"raised on a single seqlet", seqlet=rows[k],
				error=repr(val)[:300]), mech="C13/raised")
			return
		bidx.append(val[0].numpy()[0].copy())
		bp.append(val[1].numpy()[0].copy())
	ok_rows = [k for k in range(len(rows)) if bidx[k] is not None]
	for t in range(5):
		order = list(ok_rows)
		if t > 0:
			r.shuffle(order)
		if t > 1:
			order = order[:r.randint(1, len(order))]
		if t == 4:
			order = order[::-1]
		st, val = gen.call(annotate_seqlets, X, seqlets.iloc[order], motifs,
			n_jobs=r.choice([1, 2, 4]), **kw)
		if st == "raise":
			rec.violation(cls, params, dict(desc, what="annotate_seqlets "
				"raised on a subset", order=order, error=repr(val)[:300]),
				mech="C13/raised")
			return
		rec.count("executions_compared", len(order))
		p = val[1].numpy()
		i = val[0].numpy()
		for q, k in enumerate(order):
			same_p = same_bits(numpy.ascontiguousarray(p[q]), bp[k])
			same_i = same_bits(numpy.ascontiguousarray(i[q]), bidx[k]) or (
				sorted(i[q].tolist()) == sorted(bidx[k].tolist())) or len(
				set(bp[k].tolist())) < len(bp[k])
			if not (same_p and same_i):
				rec.violation(cls, params, dict(desc, what="the annotation "
					"of a seqlet depends on the co-processed seqlets / their "
					"order", seqlet=rows[k], position_in_call=q, order=order,
					alone={"idx": bidx[k].tolist(), "p": bp[k].tolist()},
					in_call={"idx": i[q].tolist(), "p": p[q].tolist()}),
					mech="C13/co-query-dependence")
				return
	rec.count("annotate_seqlets_with_unknown_column", sum(1 for k in ok_rows
		if X[rows[k][0], :, rows[k][1]:rows[k][2]].sum(dim=0).min() == 0))
	rec.held(cls, params, nontrivial=True)


def gen_params(seed, k):
	r = gen.pyrng("C13p", seed, k)
	return {"cseed": r.randrange(10 ** 9), "n_q": r.choice([8, 12, 16, 24,
		32]), "n_t": r.randint(3, 12), "rc": r.random() < 0.6,
		"n_target_bins": r.choice([None, None, 100, 20]),
		"n_score_bins": r.choice([10, 25, 50, 100, 100, 200]),
		"grid": r.choice(["fine", "fine", "coarse"]),
		"dup_targets": k % 2 == 1, "degenerate": k % 6 == 5,
		"extra_row": k % 5 == 2}


def plan(tier, seed):
	n = 24 if tier == "quick" else 640
	per = 2 if tier == "quick" else 20
	units = []
	for i, k0 in enumerate(range(0, n, per)):
		env = {"NUMBA_NUM_THREADS": "16"}
		if i % 4 == 3:
			env["NUMBA_THREADING_LAYER"] = "workqueue"
		# one hashing mode per worker process: hashing changes the dtype of an
		# argument of the (uncached) kernel, i.e. costs a second compilation
		units.append({"cls": "configs", "k0": k0, "k1": min(n, k0 + per),
			"seed": seed, "weight": per, "env": env, "tier": tier,
			"hashing": i % 3 == 1})
	for j in range(1 if tier == "quick" else 4):
		units.append({"cls": "many", "j": j, "seed": seed, "weight": 10,
			"tier": tier, "env": {"NUMBA_NUM_THREADS": "4"}})
	nb = 2 if tier == "quick" else 16
	for j in range(nb):
		units.append({"cls": "boundscheck", "k0": j * 6, "k1": j * 6 + 6,
			"seed": seed, "weight": 1, "tier": tier, "hashing": j % 2 == 1,
			"env": {"NUMBA_BOUNDSCHECK": "1", "NUMBA_NUM_THREADS": "1"}})
	return units


def run_unit(unit, rec):
	import numba
	if unit["cls"] == "many":
		r = gen.pyrng("C13manyp", unit["seed"], unit["j"])
		run_case("many-queries", {"cseed": r.randrange(10 ** 9),
			"n_q": 3400 + r.randint(0, 300) if unit["j"] % 2 == 0 else 6700,
			"n_t": r.randint(2, 5), "rc": r.random() < .5,
			"n_jobs": r.choice([1, 2, 4])}, rec)
		return
	if unit["cls"] == "boundscheck":
		for k in range(unit["k0"], unit["k1"]):
			params = gen_params(unit["seed"], 500000 + k)
			params["n_q"] = min(params["n_q"], 8)
			params["n_target_bins"] = (params["n_target_bins"] or 20) if \
				unit.get("hashing") else None
			run_case("pyfunc-boundscheck", params, rec)
		return
	for k in range(unit["k0"], unit["k1"]):
		params = gen_params(unit["seed"], k)
		if unit["tier"] == "quick":
			params["n_q"] = min(params["n_q"], 16)
			params["n_perm"], params["n_sub"] = 2, 2
		if unit.get("hashing"):
			params["n_target_bins"] = params["n_target_bins"] or 100
		else:
			params["n_target_bins"] = None
		layer = unit.get("env", {}).get("NUMBA_THREADING_LAYER", "omp")
		run_case("diff-" + layer, params, rec)
	try:
		rec.setadd("threading_layer_loaded", numba.threading_layer())
	except Exception:
		pass
	p = gen_params(unit["seed"], unit["k0"] + 100000)
	p["n_nearest"] = 2
	p["n_q"] = 10
	if not unit.get("hashing"):
		return
	case_annotate("annotate-seqlets", p, rec)
