"""C20  Greedy design never worsens the loss and takes the best substitution
each step (design.greedy_substitution).

Monitor
-------
* The module global ``tangermeme.design.substitute`` (the call with which
  greedy_substitution applies an accepted step) is wrapped for the duration of
  one call; the wrapper records the trace of accepted steps (motif, position)
  and the sequence each step was applied to.  The trace is cross-checked with
  the returned tensor: replaying it with the harness' own string substitution
  on the start sequence must reproduce the returned sequence exactly (this is
  the "differs only inside substituted windows" clause).
* The models are built by the harness: small Linear / Conv1d-ReLU-Linear nets
  in float64 with integer weights (the last layer scaled by a power of two),
  integer targets and a masked MSE (or L1) loss, so every loss the
  implementation computes is an exactly representable rational
  ``num / (count * 4**shift)``; ties are real ties.

Oracle (no tangermeme code)
---------------------------
For every state of the trace, all motifs x all fitting positions 0..L-m are
substituted with own string code, encoded with the own encoder, pushed through
a direct forward pass and scored with integer arithmetic (loss numerators are
Python ints over a common denominator, tol comparisons use Fractions).  Each
accepted step must have the minimum loss of its state (any minimiser is
accepted), the number of steps must not exceed max_iter, no step may follow a
step whose improvement was <= tol, and stopping must be justified.
"""

from fractions import Fraction

import numpy
import torch

from .. import gen

ID = "C20"
LEVEL = "exploration"
RULE = ("one case = one greedy_substitution() call described by (model spec "
	"with seeded integer weights, start sequence, motif list, integer "
	"target, output mask, loss kind, tol, max_iter, batch_size, X dtype).  "
	"Classes: random targets (1-3 planted motifs + noise); target reachable "
	"only by one motif at the LAST fitting position L-m; only at position 0; "
	"two planted motifs (last position + position 0); a motif of length L "
	"in the list; tol set exactly equal to the improvement of a greedy step "
	"(boundary of the stopping rule); tie-heavy cases (position-invariant "
	"pooled model, duplicated motifs); short sequences with motifs of "
	"length L-1/L-2.  Non-trivial = at the start sequence at least one "
	"(motif, position) strictly improves the loss, so the procedure has a "
	"decision to make (and max_iter=0 has something to refuse); distinct = "
	"distinct parameter tuples.  Counters measure: brute-forced states, "
	"states whose unique best placement is the last fitting position / "
	"position 0, tie states, steps checked, stops by max_iter / by tol / "
	"by exhaustion, exact tol-boundary hits.")
ASSUMPTIONS = [
	"device='cpu'; tol in [0, 1] (or the default 1e-3); max_iter in "
	"{0..4, -1}; `start` and `args` are never passed (unused by the "
	"implementation)",
	"loss = loss(y[:, mask], y_hat[:, mask]) averaged over all non-batch "
	"dimensions, with loss either the default MSELoss(reduction='none'), "
	"an explicit one, or L1Loss(reduction='none'); mask is a bool vector "
	"over output dimension 1 or None",
	"stopping rule: the statement ('stops ... as soon as the best available "
	"improvement is not above tol') and the documented behaviour (apply the "
	"best improving step, then stop if its improvement <= tol) differ on "
	"whether a last step with 0 < improvement <= tol is applied; BOTH are "
	"accepted: a final step with improvement <= tol may or may not be "
	"applied, but no further step may follow it, and stopping with fewer "
	"than max_iter steps is only accepted if the last applied improvement "
	"or the best available improvement is not above tol",
	"a step is judged only by 'its loss is the minimum over all (motif, "
	"fitting position) pairs of that state'; which minimiser is taken on "
	"ties is free; a non-improving minimal step is not flagged by itself "
	"(only through 'final loss > start loss')",
	"tol comparisons are exact when the number of masked outputs is a power "
	"of two (all floats exact); otherwise an improvement within 8 ulp of "
	"tol is treated as ambiguous and both outcomes are accepted",
	"a motif of length L (fits only at position 0) is inside the property's "
	"scope ('all positions at which the motif fits'); an exception on such "
	"an input is a violation, not a refusal",
	"if the trace of design.substitute calls does not replay to the returned "
	"sequence (e.g. an implementation that does not apply steps through "
	"design.substitute), the output is accepted iff it is reachable by some "
	"valid greedy run (tie branching, both stopping readings)",
]
REQUIRED = {"states_bruteforced": 200, "steps_checked": 100,
	"state_best_only_at_last_position": 20, "state_best_at_position_0": 10,
	"tie_states": 5, "tol_boundary_hits": 3, "stop_by_max_iter": 10,
	"stop_by_tol": 10, "stop_by_exhaustion": 10}
TIMEOUT = {"quick": 900, "thorough": 5400}

A = 4
DT = {"int8": torch.int8, "float32": torch.float32, "float64": torch.float64}
STEP_CAP = 200      # valid runs on L <= 40 observed: <= ~15 steps

PRIORITY = ["C20/output-invalid", "C20/loss-increased",
	"C20/changed-outside-windows", "C20/output-differs-from-applied-steps",
	"C20/output-not-explained", "C20/too-many-steps",
	"C20/continued-after-tol", "C20/step-not-minimum", "C20/stopped-early",
	"C20/last-position-not-evaluated"]


class Runaway(Exception):
	pass


class OracleError(Exception):
	pass


# --------------------------------------------------------------------------
# harness-owned exact models
# --------------------------------------------------------------------------

class Net(torch.nn.Module):
	"""spec: kind in lin/conv/pool, L, n_out, C, ks, shift, wseed, out3.
	Integer weights from gen.nprng('C20-model', wseed); the last layer is
	scaled by 2**-shift, so outputs are integers * 2**-shift (exact)."""

	def __init__(self, spec):
		super().__init__()
		self.kind = spec["kind"]
		self.n = spec["n_out"]
		self.out3 = bool(spec.get("out3", False))
		L, C, ks = spec["L"], spec.get("C", 2), spec.get("ks", 3)
		no = self.n * (2 if self.out3 else 1)
		g = gen.nprng("C20-model", spec["wseed"])
		scale = 2.0 ** (-spec.get("shift", 0))

		def ints(shape, r):
			return torch.from_numpy(g.integers(-r, r + 1,
				size=shape).astype(numpy.float64))

		if self.kind == "lin":
			self.lin = torch.nn.Linear(A * L, no, dtype=torch.float64)
			r = 9
		elif self.kind == "conv":
			self.conv = torch.nn.Conv1d(A, C, ks, dtype=torch.float64)
			self.lin = torch.nn.Linear(C * (L - ks + 1), no,
				dtype=torch.float64)
			r = 3
		elif self.kind == "pool":
			self.conv = torch.nn.Conv1d(A, C, ks, dtype=torch.float64)
			self.lin = torch.nn.Linear(C, no, dtype=torch.float64)
			r = 3
		else:
			raise AssertionError(self.kind)
		with torch.no_grad():
			if self.kind != "lin":
				self.conv.weight.copy_(ints(self.conv.weight.shape, 3))
				self.conv.bias.copy_(ints(self.conv.bias.shape, 2))
			self.lin.weight.copy_(ints(self.lin.weight.shape, r) * scale)
			self.lin.bias.copy_(ints(self.lin.bias.shape, 4) * scale)

	def forward(self, X):
		if self.kind == "lin":
			h = X.flatten(1)
		elif self.kind == "conv":
			h = torch.relu(self.conv(X)).flatten(1)
		else:
			h = torch.relu(self.conv(X)).sum(dim=2)
		y = self.lin(h)
		if self.out3:
			y = y.reshape(y.shape[0], self.n, 2)
		return y


def own_sub(s, motif, p):
	m = len(motif)
	if not (0 <= p <= len(s) - m):
		raise OracleError("placement %d of %r outside sequence of length %d"
			% (p, motif, len(s)))
	return s[:p] + motif + s[p + m:]


def is_pow2(n):
	return n > 0 and (n & (n - 1)) == 0


class Ctx:
	"""Exact evaluation context of one case (oracle side)."""

	def __init__(self, params):
		self.spec = params["model"]
		self.model = Net(self.spec).eval()
		self.alphabet = params.get("alphabet", "ACGT")
		self.L = self.spec["L"]
		self.shift = self.spec.get("shift", 0)
		self.motifs = list(params["motifs"])
		self.umotifs = sorted(set(self.motifs), key=self.motifs.index)
		n = self.spec["n_out"]
		self.out3 = bool(self.spec.get("out3", False))
		self.y_int = numpy.array(params["y"], dtype=numpy.int64).reshape(
			(1, n, 2) if self.out3 else (1, n))
		mask = params.get("mask")
		self.maskidx = (numpy.arange(n) if mask is None else
			numpy.nonzero(numpy.array(mask, dtype=bool))[0])
		self.l1 = params.get("loss", "default") == "l1"
		self.count = len(self.maskidx) * (2 if self.out3 else 1)
		self.den = self.count * ((2 if self.l1 else 4) ** self.shift)
		self.dyadic = is_pow2(self.count)
		tol = params.get("tol")
		self.tol = Fraction(1e-3 if tol is None else float(tol))
		mi = params.get("max_iter")
		self.max_iter = -1 if mi is None else mi
		self._cache = {}
		self.states = 0

	def out_ints(self, seqs):
		X = gen.ohe(seqs, self.alphabet, torch.float64)
		with torch.no_grad():
			o = self.model(X).numpy()
		s = o * float(2 ** self.shift)
		r = numpy.rint(s)
		if not (r == s).all() or numpy.abs(r).max() > 2 ** 40:
			raise OracleError("model output not an exact scaled integer")
		return r.astype(numpy.int64)

	def nums(self, seqs):
		"""loss numerators (Python ints) of the sequences; loss = num/den."""
		o = self.out_ints(seqs)
		d = (o[:, self.maskidx] - self.y_int[:, self.maskidx]).reshape(
			len(seqs), -1)
		v = numpy.abs(d).sum(axis=1) if self.l1 else (d * d).sum(axis=1)
		return [int(x) for x in v]

	def num_of(self, seq):
		return self.nums([seq])[0]

	def cands(self, state):
		"""all (num, motif, pos, new_state) of a state: every distinct motif
		at every fitting position 0..L-m."""
		c = self._cache.get(state)
		if c is None:
			items = []
			for mo in self.umotifs:
				for p in range(self.L - len(mo) + 1):
					items.append((mo, p, own_sub(state, mo, p)))
			nums = self.nums([it[2] for it in items]) if items else []
			c = [(nums[i], it[0], it[1], it[2]) for i, it in
				enumerate(items)]
			if len(self._cache) > 64:
				self._cache.clear()
			self._cache[state] = c
			self.states += 1
		return c

	def cmp_tol(self, imp_num, lp_num):
		"""'above' / 'notabove' / 'ambiguous' for improvement vs tol."""
		if imp_num <= 0:
			# tol >= 0 and float division/subtraction are monotone: a loss
			# that is not smaller can never give a positive improvement
			return "notabove"
		imp = Fraction(imp_num, self.den)
		if self.dyadic:
			# every float the implementation forms (losses, their
			# difference) is a dyadic rational of < 53 bits: exact.
			return "above" if imp > self.tol else "notabove"
		# count not a power of two: losses are correctly rounded quotients,
		# the difference carries <= 2 ulp of the larger loss; use 8 ulp.
		band = Fraction(8 * 2.0 ** -52) * max(Fraction(1), Fraction(abs(
			lp_num), self.den))
		if imp > self.tol + band:
			return "above"
		if imp <= self.tol - band:
			return "notabove"
		return "ambiguous"

	def fmt(self, num):
		return "%d/%d" % (num, self.den)


def restricted_min(ctx, C):
	R = [c[0] for c in C if c[2] < ctx.L - len(c[1])]
	return min(R) if R else None


def best_list(C, gmin, cap=4):
	return [[c[1], c[2]] for c in C if c[0] == gmin][:cap]


def walk(ctx, start, steps, rec=None, judge_stop=True):
	"""Judge a trace of accepted steps [(motif, pos), ...] from `start`.
	-> (anomalies [(mech, info)], final state, stats dict)"""
	anomalies = []
	state = start
	lp = ctx.num_of(state)
	last = None
	L = ctx.L
	stats = {"boundary": 0, "improvable_at_start": False}
	for i, (mo, p) in enumerate(steps, 1):
		if len(anomalies) >= 5:
			break
		C = ctx.cands(state)
		gmin = min(c[0] for c in C)
		if i == 1:
			stats["improvable_at_start"] = gmin < lp
		observe_state(ctx, C, gmin, lp, rec)
		if ctx.max_iter >= 0 and i > ctx.max_iter:
			anomalies.append(("C20/too-many-steps", {"step": i,
				"max_iter": ctx.max_iter, "what": "more than max_iter "
				"substitutions were applied"}))
		if last == "notabove":
			anomalies.append(("C20/continued-after-tol", {"step": i,
				"previous_improvement": prev_imp, "tol": float(ctx.tol),
				"what": "step %d was applied although the improvement of "
				"step %d was not above tol" % (i, i - 1)}))
		new = own_sub(state, mo, p)
		t = ctx.num_of(new)
		if t != gmin:
			rmin = restricted_min(ctx, C)
			info = {"step": i, "state": state, "applied": [mo, p],
				"applied_loss": ctx.fmt(t), "loss_before": ctx.fmt(lp),
				"best_loss": ctx.fmt(gmin), "best_placements":
				best_list(C, gmin), "best_loss_excluding_last_positions":
				None if rmin is None else ctx.fmt(rmin)}
			if rmin is not None and t == rmin and p < L - len(mo):
				# every global minimiser sits at its last fitting position
				# (the minimum over positions < L-m is larger) and the
				# applied step is exactly the best of the remaining ones
				info["what"] = ("the best placement is at the last fitting "
					"position L-m; the applied step is the best among "
					"positions < L-m only")
				anomalies.append(("C20/last-position-not-evaluated", info))
			else:
				info["what"] = "applied step is not a loss minimiser"
				anomalies.append(("C20/step-not-minimum", info))
		imp = lp - t
		last = ctx.cmp_tol(imp, lp)
		prev_imp = ctx.fmt(imp)
		if Fraction(imp, ctx.den) == ctx.tol and ctx.tol > 0:
			stats["boundary"] += 1
		if rec is not None:
			rec.count("steps_checked")
		state, lp = new, t
	if not judge_stop or len(anomalies) >= 5:
		return anomalies, state, stats
	k = len(steps)
	C = ctx.cands(state)
	if C:
		gmin = min(c[0] for c in C)
		if k == 0:
			stats["improvable_at_start"] = gmin < lp
		observe_state(ctx, C, gmin, lp, rec)
		gc = ctx.cmp_tol(lp - gmin, lp)
		if Fraction(lp - gmin, ctx.den) == ctx.tol and ctx.tol > 0:
			stats["boundary"] += 1
	else:
		gmin, gc = lp, "notabove"
	at_max = ctx.max_iter >= 0 and k >= ctx.max_iter
	by_last = k > 0 and last != "above"
	by_best = gc != "above"
	if at_max:
		stats["stop"] = "max_iter"
	elif by_last:
		stats["stop"] = "tol"
	elif by_best:
		stats["stop"] = "tol" if gmin < lp else "exhaustion"
	else:
		rmin = restricted_min(ctx, C)
		info = {"steps_taken": k, "max_iter": ctx.max_iter, "state": state,
			"loss": ctx.fmt(lp), "best_loss": ctx.fmt(gmin),
			"best_placements": best_list(C, gmin), "best_improvement":
			ctx.fmt(lp - gmin), "tol": float(ctx.tol),
			"best_loss_excluding_last_positions": None if rmin is None
			else ctx.fmt(rmin)}
		if rmin is None or ctx.cmp_tol(lp - rmin, lp) != "above":
			info["what"] = ("stopped although a placement at the last "
				"fitting position L-m improves by more than tol; no "
				"placement at positions < L-m does")
			anomalies.append(("C20/last-position-not-evaluated", info))
		else:
			info["what"] = ("stopped with fewer than max_iter steps while "
				"the best available improvement is above tol")
			anomalies.append(("C20/stopped-early", info))
		stats["stop"] = "unjustified"
	return anomalies, state, stats


def observe_state(ctx, C, gmin, lp, rec):
	if rec is None:
		return
	rec.count("states_bruteforced")
	rec.count("candidates_evaluated", len(C))
	if gmin >= lp:
		return
	mins = [c for c in C if c[0] == gmin]
	if len(set(c[3] for c in mins)) > 1:
		rec.count("tie_states")
	if all(c[2] == ctx.L - len(c[1]) for c in mins):
		rec.count("state_best_only_at_last_position")
	if any(c[2] == 0 for c in mins):
		rec.count("state_best_at_position_0")


def reachable(ctx, start, limit=1500):
	"""{sequence: steps} for every sequence some valid greedy run may return
	(tie branching, both stopping readings); None if the search is too
	large."""
	out = {}
	stack = [(start, 0, None, ())]
	nodes = 0
	while stack:
		state, k, last, path = stack.pop()
		nodes += 1
		if nodes > limit:
			return None
		lp = ctx.num_of(state)
		C = ctx.cands(state)
		if not C:
			out.setdefault(state, list(path))
			continue
		gmin = min(c[0] for c in C)
		gc = ctx.cmp_tol(lp - gmin, lp)
		at_max = ctx.max_iter >= 0 and k >= ctx.max_iter
		if at_max or (k > 0 and last != "above") or gc != "above":
			out.setdefault(state, list(path))
		if not at_max and (k == 0 or last != "notabove"):
			nxt = {}
			for c in C:
				if c[0] == gmin:
					nxt.setdefault(c[3], (c[1], c[2]))
			for new in sorted(nxt):
				stack.append((new, k + 1, gc, path + (nxt[new],)))
	return out


# --------------------------------------------------------------------------
# one case
# --------------------------------------------------------------------------

def run_case(cls, params, rec):
	import tangermeme.design as D
	try:
		_run_case(D, cls, params, rec)
	except OracleError as e:
		rec.inconclusive(cls, params, "oracle: %s" % (str(e)[:40],))


def call_design(D, ctx, params, motifs, trace):
	spec = params["model"]
	alphabet = ctx.alphabet
	X = gen.ohe([params["seq"]], alphabet, DT[params.get("xdtype", "int8")])
	X, xbase = gen.relayout(X, gen.layout_of(params))
	y = torch.from_numpy(ctx.y_int.astype(numpy.float64) * 2.0 ** (
		-ctx.shift))
	kw = {"device": "cpu"}
	if params.get("mask") is not None:
		kw["mask"] = torch.tensor([bool(b) for b in params["mask"]])
	if params.get("tol") is not None:
		kw["tol"] = float(params["tol"])
	if params.get("max_iter") is not None:
		kw["max_iter"] = params["max_iter"]
	if params.get("batch_size") is not None:
		kw["batch_size"] = params["batch_size"]
	lk = params.get("loss", "default")
	if lk == "mse":
		kw["loss"] = torch.nn.MSELoss(reduction="none")
	elif lk == "l1":
		kw["loss"] = torch.nn.L1Loss(reduction="none")
	if alphabet != "ACGT":
		kw["alphabet"] = list(alphabet)
	model = Net(spec)
	model.train()      # predict() is responsible for eval mode

	orig = D.substitute
	seen = set()
	chain = {"ok": True, "last": [params["seq"]]}

	def wrapped(Xs, motif, *a, **k):
		# while the calls form a chain (each applied to the result of the
		# previous one) they are accepted steps and a valid run has few of
		# them; otherwise substitute is used for something else as well and
		# only a very generous cap protects against endless runs.
		if len(trace) >= (STEP_CAP if chain["ok"] else 100 * STEP_CAP):
			raise Runaway("more than %d substitute calls" % len(trace))
		start = k.get("start", a[0] if a else None)
		ent = {"motif": motif if isinstance(motif, str) else None,
			"start": None, "in": None, "out": None}
		try:
			ent["start"] = int(start)
		except Exception:
			pass
		try:
			ent["in"] = gen.decode(Xs, alphabet)
		except Exception:
			pass
		if ent["in"] != chain["last"]:
			chain["ok"] = False
		# a step of the chain applied to a sequence that an earlier step was
		# already applied to: the run went through a cycle, i.e. some step
		# that was followed by another one did not lower the loss.  Stop the
		# run here (it may never end); the trace so far is judged offline.
		key = None if ent["in"] is None else ent["in"][0]
		trace.append(ent)
		if chain["ok"] and key in seen:
			raise Runaway("state repeated")
		seen.add(key)
		out = orig(Xs, motif, *a, **k)
		try:
			ent["out"] = gen.decode(out, alphabet)
		except Exception:
			pass
		chain["last"] = ent["out"]
		return out

	D.substitute = wrapped
	try:
		mon = gen.Immutable(X=X, Xbase=xbase, y=y)
		st, out = gen.call(D.greedy_substitution, model, X, list(motifs), y,
			**kw)
	finally:
		D.substitute = orig
	return st, out, mon.changed()


def trace_steps(ctx, seq, trace):
	"""-> (steps, chain_ok): steps as (motif, pos); chain_ok iff every call
	was applied to the result of the previous one, starting at seq, with a
	string motif and an integer in-range start."""
	steps = []
	state = seq
	ok = True
	for ent in trace:
		mo, p = ent["motif"], ent["start"]
		if mo is None or p is None or not (0 <= p <= ctx.L - len(mo)):
			return steps, False
		if ent["in"] != [state]:
			ok = False
		steps.append((mo, p))
		state = own_sub(state, mo, p)
	return steps, ok


def _run_case(D, cls, params, rec):
	ctx = Ctx(params)
	seq = params["seq"]
	L = ctx.L
	motifs = ctx.motifs
	trace = []
	st, out, changed = call_design(D, ctx, params, motifs, trace)
	base = {"seq": seq, "motifs": motifs, "L": L, "tol": float(ctx.tol),
		"max_iter": ctx.max_iter, "loss_den": ctx.den, "repro":
		"vf.props.c20.Net(params['model']) rebuilds the model; y = "
		"params['y'] * 2**-shift; see call_design()"}
	shown = [[e["motif"], e["start"]] for e in trace[:12]]
	base["substitute_calls"] = shown

	if st == "raise" and not isinstance(out, Runaway):
		full = [m for m in motifs if len(m) == L]
		det = dict(base, error=repr(out)[:300])
		if full and ctx.max_iter != 0:
			rest = [m for m in motifs if len(m) != L]
			st2, out2, _ = call_design(D, ctx, params, rest, [])
			if st2 == "ok":
				det["what"] = ("raises when the list contains a motif of "
					"length L = %d (its only fitting position 0 = L-m is the "
					"last one: X.repeat(L-m) builds 0 candidates); the same "
					"call without %s returns" % (L, full))
				rec.count("full_length_raise")
				rec.violation(cls, params, det,
					mech="C20/last-position-not-evaluated")
				return
		det["what"] = "greedy_substitution raised on an in-scope input"
		rec.violation(cls, params, det, mech="C20/raised")
		return

	steps, chain_ok = trace_steps(ctx, seq, trace)

	if st == "raise":      # Runaway
		if not chain_ok:
			rec.inconclusive(cls, params, "substitute called > cap, not a "
				"chain of steps")
			return
		an, _, _ = walk(ctx, seq, steps, rec, judge_stop=False)
		if not an:
			rec.inconclusive(cls, params, "run exceeded step cap without "
				"anomaly")
			return
		report(cls, params, rec, base, an, {"run_aborted_by_monitor":
			str(out)})
		return

	# ---- returned value ---------------------------------------------------
	try:
		if not isinstance(out, torch.Tensor) or tuple(out.shape) != (1, A, L):
			raise gen.NotOneHot("type %s shape %s" % (type(out).__name__,
				getattr(out, "shape", None)))
		oseq = gen.decode(out, ctx.alphabet)[0]
	except gen.NotOneHot as e:
		rec.violation(cls, params, dict(base, what="returned value is not a "
			"one-hot (1, 4, L) tensor", error=str(e)[:200]),
			mech="C20/output-invalid")
		return

	l0, l1 = ctx.nums([seq, oseq])
	extra = {"returned": oseq, "loss_start": ctx.fmt(l0), "loss_returned":
		ctx.fmt(l1)}
	anomalies = []
	if l1 > l0:
		anomalies.append(("C20/loss-increased", {"what": "loss of the "
			"returned sequence is higher than that of the start sequence"}))

	replay = seq
	for mo, p in steps:
		replay = own_sub(replay, mo, p)
	usable = (len(steps) == len(trace)) and replay == oseq
	if not usable:
		rec.count("trace_unusable")
		R = reachable(ctx, seq)
		if R is None:
			rec.inconclusive(cls, params, "trace unusable, search too large")
			return
		if oseq in R and not anomalies:
			# judge the reconstructed run like an observed trace (it is
			# valid by construction; this feeds the coverage counters)
			an, _, stats = walk(ctx, seq, R[oseq], rec)
			if an:
				raise OracleError("reconstructed run not accepted")
			rec.count("held_by_reachability")
			finish_stats(rec, stats, len(R[oseq]))
			rec.held(cls, params, nontrivial=bool(
				stats["improvable_at_start"]))
			return
		covered = set()
		for mo, p in steps:
			covered.update(range(p, p + len(mo)))
		outside = [i for i in range(L) if oseq[i] != seq[i] and i not in
			covered]
		if oseq not in R:
			if outside:
				anomalies.append(("C20/changed-outside-windows", {"what":
					"positions differ from the start sequence outside every "
					"window passed to design.substitute", "positions":
					outside}))
			elif trace:
				anomalies.append(("C20/output-differs-from-applied-steps",
					{"what": "replaying the applied steps on the start "
					"sequence gives a different sequence", "replayed":
					replay}))
			else:
				anomalies.append(("C20/output-not-explained", {"what":
					"no valid greedy run returns this sequence"}))
		report(cls, params, rec, base, anomalies, extra)
		return

	an, _, stats = walk(ctx, seq, steps, rec)
	anomalies.extend(an)
	finish_stats(rec, stats, len(steps))
	if not chain_ok:
		rec.count("chain_mismatch")
	if changed:
		rec.count("caller_tensor_modified")
	if anomalies:
		report(cls, params, rec, base, anomalies, extra)
		return
	rec.held(cls, params, nontrivial=bool(stats["improvable_at_start"]))


def finish_stats(rec, stats, k):
	rec.setadd("n_steps", k)
	rec.maxv("max_steps", k)
	if stats.get("boundary"):
		rec.count("tol_boundary_hits")
	if stats.get("stop") in ("max_iter", "tol", "exhaustion"):
		rec.count("stop_by_" + stats["stop"])


def report(cls, params, rec, base, anomalies, extra):
	anomalies = sorted(anomalies, key=lambda a: PRIORITY.index(a[0])
		if a[0] in PRIORITY else 0)
	mech, info = anomalies[0]
	det = dict(base)
	det.update(extra)
	det.update(info)
	if len(anomalies) > 1:
		det["other_anomalies"] = [[m, i.get("what", ""), i.get("step")]
			for m, i in anomalies[1:5]]
	rec.violation(cls, params, det, mech=mech)


# --------------------------------------------------------------------------
# workload
# --------------------------------------------------------------------------

CLASSES = ["random", "last-only", "first-only", "two-step", "full-length",
	"tol-boundary", "ties", "short"]
BASE = {"random": 700, "last-only": 220, "first-only": 140, "two-step": 160,
	"full-length": 50, "tol-boundary": 160, "ties": 160, "short": 220}


def rand_motif(r, lo=1, hi=8):
	return gen.rand_seq(r, r.randint(lo, hi))


def gen_case(cls, r):
	"""-> explicit params of one case (JSON-serialisable)."""
	if cls == "short":
		L = r.randint(8, 12)
	elif r.random() < 0.4:
		L = r.choice([8, 8, 9, 10, 16, 31, 32, 39, 40, 40])
	else:
		L = r.randint(8, 40)
	kind = r.choice(["lin", "conv", "conv", "conv", "pool"])
	if cls == "ties":
		kind = r.choice(["pool", "pool", "conv", "lin"])
	n_out = r.randint(1, 6)
	spec = {"kind": kind, "L": L, "n_out": n_out, "C": r.randint(1, 4),
		"ks": r.choice([1, 2, 3, 3, 5]), "shift": r.choice([0, 0, 2, 4, 6]),
		"wseed": r.getrandbits(32), "out3": r.random() < 0.12}
	seq = gen.rand_seq(r, L)
	nm = r.randint(1, 5)
	if cls == "short":
		motifs = [rand_motif(r, 1, 8) for _ in range(nm)]
		motifs[r.randrange(nm)] = gen.rand_seq(r, L - r.choice([1, 1, 2]))
	else:
		motifs = [rand_motif(r) for _ in range(nm)]
	if cls == "ties" and r.random() < 0.7:
		motifs.append(r.choice(motifs))
		if r.random() < 0.5:
			motifs.insert(0, motifs[-1][:max(1, len(motifs[-1]) - 1)])
		motifs = motifs[:5]
	if cls == "full-length":
		motifs[r.randrange(len(motifs))] = gen.rand_seq(r, L)
	if n_out == 1 or r.random() < 0.3:
		mask = None
	else:
		mask = [int(r.random() < 0.6) for _ in range(n_out)]
		if not any(mask):
			mask[r.randrange(n_out)] = 1
	params = {"model": spec, "seq": seq, "motifs": motifs, "mask": mask,
		"tol": r.choice([0.0, 0.0, None, 0.0625, 0.25, 0.5, 1.0,
			round(r.random(), 6), round(r.random() ** 3, 6)]),
		"max_iter": r.choice([0, 1, 2, 3, 4, -1, -1, None]),
		"batch_size": r.choice([1, 2, 3, 7, L - 1, L, r.randint(1, L),
			r.randint(1, L), None, 1000]),
		"loss": r.choice(["default", "default", "mse", "l1"]),
		"xdtype": r.choice(["int8", "int8", "float32", "float64"])}
	if r.random() < 0.1:
		params["alphabet"] = "".join(r.sample("ACGT", 4))

	# ---- target ----------------------------------------------------------
	probe = dict(params, y=[0] * (n_out * (2 if spec["out3"] else 1)))
	ctx = Ctx(probe)

	def differing(p_of):
		# a motif whose placement changes the sequence
		order = list(range(len(motifs)))
		r.shuffle(order)
		for j in order:
			if len(motifs[j]) == L and cls != "full-length":
				continue
			p = p_of(len(motifs[j]))
			if own_sub(seq, motifs[j], p) != seq:
				return j, p
		j = order[0]
		p = p_of(len(motifs[j]))
		c = seq[p]
		motifs[j] = r.choice([x for x in "ACGT" if x != c]) + motifs[j][1:]
		return j, p

	planted = seq
	if cls == "last-only":
		j, p = differing(lambda m: L - m)
		planted = own_sub(seq, motifs[j], p)
	elif cls == "first-only":
		j, p = differing(lambda m: 0)
		planted = own_sub(seq, motifs[j], p)
	elif cls == "two-step":
		j, p = differing(lambda m: L - m)
		planted = own_sub(seq, motifs[j], p)
		j2 = r.randrange(len(motifs))
		p2 = r.choice([0, 0, r.randint(0, L - len(motifs[j2]))])
		planted = own_sub(planted, motifs[j2], p2)
	elif cls == "full-length":
		full = [m for m in motifs if len(m) == L]
		planted = full[0] if r.random() < 0.5 else seq
		for _ in range(r.randint(0, 2)):
			mo = r.choice(motifs)
			planted = own_sub(planted, mo, r.randint(0, L - len(mo)))
	else:
		for _ in range(r.randint(1, 3)):
			mo = r.choice(motifs)
			p = r.choice([0, L - len(mo), r.randint(0, L - len(mo)),
				r.randint(0, L - len(mo))])
			planted = own_sub(planted, mo, p)
	params["motifs"] = motifs
	ctx = Ctx(dict(probe, motifs=motifs))
	y = ctx.out_ints([planted])[0]
	if cls in ("random", "ties", "short", "tol-boundary") and \
		r.random() < 0.6:
		noise = numpy.array([r.choice([0, 0, 1, -1, 2, -3, 5]) for _ in
			range(y.size)]).reshape(y.shape)
		y = y + noise * r.choice([1, 1, 4, 16])
	params["y"] = [int(v) for v in y.reshape(-1)]

	if cls == "tol-boundary":
		tol_boundary(params, r)
	return params


def tol_boundary(params, r):
	"""Set tol exactly equal to the improvement of one step of a (harness)
	greedy run, choosing the output scale so that it lies in (0, 1]."""
	spec = params["model"]
	n = spec["n_out"]
	mult = 2 if spec["out3"] else 1
	# number of masked entries must be a power of two for exact floats
	want = r.choice([c for c in (1, 2, 4) if c <= n])
	if mult * n == want * mult and r.random() < 0.3:
		params["mask"] = None
	else:
		idx = r.sample(range(n), want)
		params["mask"] = [int(i in idx) for i in range(n)]
	spec["shift"] = 0
	params["tol"] = 0.0
	params["max_iter"] = r.choice([-1, -1, None, 4])
	ctx = Ctx(params)
	state = params["seq"]
	lp = ctx.num_of(state)
	imps = []
	for _ in range(5):
		C = ctx.cands(state)
		gmin = min(c[0] for c in C)
		if gmin >= lp:
			break
		imps.append(lp - gmin)
		# follow what the unchanged implementation is likely to follow as
		# well as the true greedy: first global minimiser
		state = [c for c in C if c[0] == gmin][0][3]
		lp = gmin
	if not imps:
		return
	imp = imps[r.randrange(min(len(imps), 4))]
	base = 2 if ctx.l1 else 4
	s = 0
	while Fraction(imp, ctx.count * base ** s) > 1:
		s += 1
	s += r.choice([0, 0, 1])
	if s > 14:
		return
	tol = Fraction(imp, ctx.count * base ** s)
	if Fraction(float(tol)) != tol:
		return
	spec["shift"] = s
	params["tol"] = float(tol)


def plan(tier, seed):
	mult, per = (2, 36) if tier == "quick" else (40, 360)
	units = []
	for cls in CLASSES:
		n = BASE[cls] * mult
		k = 0
		while k < n:
			c = min(per, n - k)
			units.append({"cls": cls, "k0": k, "n": c, "seed": seed,
				"weight": c})
			k += c
	return units


def run_unit(unit, rec):
	cls = unit["cls"]
	for k in range(unit["k0"], unit["k0"] + unit["n"]):
		r = gen.pyrng(ID, unit["seed"], cls, k)
		try:
			params = gen_case(cls, r)
		except OracleError as e:
			rec.count("generator_skipped")
			continue
		run_case(cls, params, rec)
