"""Orchestrator: plans the workload of one property, runs it in isolated worker
processes, merges what the monitors observed, applies the known-findings
policy, writes the evidence file and decides the exit status.

    exit 0  property held on everything observed (KNOWN-FINDING lines allowed)
    exit 1  at least one violation that known_findings.json does not list
            (one line  VIOLATION property=<id> replay=<path>  per mechanism)
    exit 2  INCONCLUSIVE: a required monitor observed nothing / harness error
"""

import concurrent.futures
import hashlib
import importlib
import json
import os
import shutil
import subprocess
import sys
import tempfile
import time

from .rec import Recorder, canon, short_hash

HERE = os.path.dirname(os.path.dirname(os.path.abspath(__file__)))
REPO = os.environ.get("VERIF_REPO", "/repo")
WORK = os.path.join(HERE, ".work")
NCPU = int(os.environ.get("VERIF_JOBS", "0")) or min(16, os.cpu_count() or 4)


def tree_hash():
	h = hashlib.sha256()
	root = os.path.join(REPO, "tangermeme")
	for d, dirs, files in sorted(os.walk(root)):
		dirs.sort()
		if "__pycache__" in d:
			continue
		for f in sorted(files):
			if f.endswith(".py"):
				p = os.path.join(d, f)
				h.update(os.path.relpath(p, root).encode())
				with open(p, "rb") as fh:
					h.update(fh.read())
	return h.hexdigest()[:20]


def numba_cache_dir():
	base = os.path.join(WORK, "numba")
	os.makedirs(base, exist_ok=True)
	th = tree_hash()
	d = os.path.join(base, th)
	os.makedirs(d, exist_ok=True)
	# prune caches of older trees (keep the 3 most recent)
	try:
		others = sorted((x for x in os.listdir(base) if x != th),
			key=lambda x: os.path.getmtime(os.path.join(base, x)))
		for x in others[:-2]:
			shutil.rmtree(os.path.join(base, x), ignore_errors=True)
		os.utime(d)
	except OSError:
		pass
	return d, th


def base_env(extra=None):
	env = dict(os.environ)
	env.setdefault("OMP_NUM_THREADS", "1")
	env.setdefault("MKL_NUM_THREADS", "1")
	env.setdefault("NUMBA_NUM_THREADS", "1")
	env["TANGERMEME_VERIF"] = "1"
	env["PYTHONHASHSEED"] = "0"
	env["PYTHONDONTWRITEBYTECODE"] = "1"
	env["PYTHONPATH"] = REPO + os.pathsep + HERE
	if extra:
		for k, v in extra.items():
			if v is None:
				env.pop(k, None)
			else:
				env[k] = str(v)
	if env.get("NUMBA_BOUNDSCHECK") == "1" and env.get("NUMBA_CACHE_DIR"):
		# numba's on-disk cache is not keyed by the bounds-check flag: a
		# cache=True kernel compiled without checks would be loaded silently
		# (and a checked one would pollute the ordinary cache)
		env["NUMBA_CACHE_DIR"] = env["NUMBA_CACHE_DIR"] + "-boundscheck"
		os.makedirs(env["NUMBA_CACHE_DIR"], exist_ok=True)
	return env


def run_chunk(pid, units, env_extra, timeout, tmpdir, idx, _depth=0):
	spec = os.path.join(tmpdir, "chunk%04d.in.json" % idx)
	out = os.path.join(tmpdir, "chunk%04d.out.json" % idx)
	with open(spec, "w") as fh:
		json.dump({"property": pid, "units": units}, fh)
	t0 = time.time()
	try:
		p = subprocess.run([sys.executable, "-m", "vf.worker", spec, out],
			env=base_env(env_extra), cwd=HERE, timeout=timeout,
			stdout=subprocess.PIPE, stderr=subprocess.STDOUT)
		status, log = p.returncode, p.stdout.decode(errors="replace")
	except subprocess.TimeoutExpired as e:
		status, log = "timeout", (e.stdout or b"").decode(errors="replace")
	res = None
	if os.path.exists(out):
		try:
			with open(out) as fh:
				res = json.load(fh)
		except ValueError:
			res = None
	if res is None and isinstance(status, int) and status < 0 and _depth == 0:
		# the worker was killed by a signal (e.g. a segfault inside a numba
		# kernel): re-run its units one by one; a unit that kills its worker
		# again is a reproducible crash of the code under test.
		merged = Recorder()
		errs, done = [], 0
		for j, u in enumerate(units):
			r = run_chunk(pid, [u], env_extra, timeout, tmpdir,
				idx * 1000 + j + 100000, _depth=1)
			if r["res"] is not None:
				merged.merge(r["res"]["rec"])
				errs.extend(r["res"].get("harness_errors", []))
				done += r["res"].get("units_done", 0)
			elif isinstance(r["status"], int) and r["status"] < 0:
				r2 = run_chunk(pid, [u], env_extra, timeout, tmpdir,
					idx * 1000 + j + 200000, _depth=1)
				if r2["res"] is None and r2["status"] == r["status"]:
					merged.violation("worker-crash", {"unit": u},
						"worker killed by signal %d twice on this unit; "
						"log tail: %s" % (-r["status"], r["log"][-500:]),
						mech="crash/signal-%d" % (-r["status"]))
				else:
					merged.inconclusive("worker-crash", {"unit": u},
						"crash did not reproduce")
		res = {"rec": merged.dump(), "harness_errors": errs,
			"units_done": done}
		status = 0
	return {"idx": idx, "status": status, "log": log[-4000:], "res": res,
		"n_units": len(units), "wall": time.time() - t0}


def make_chunks(units, target_chunks):
	"""Group units by their env, then split every group into chunks."""
	groups = {}
	for u in units:
		groups.setdefault(canon(u.get("env") or {}), []).append(u)
	chunks = []
	total = sum(u.get("weight", 1) for u in units) or 1
	for envs, us in groups.items():
		w = sum(u.get("weight", 1) for u in us)
		k = max(1, min(len(us), round(target_chunks * w / total)))
		# round-robin so that heavy/light units spread evenly
		us = sorted(us, key=lambda u: -u.get("weight", 1))
		parts = [[] for _ in range(k)]
		loads = [0] * k
		for u in us:
			j = loads.index(min(loads))
			parts[j].append(u)
			loads[j] += u.get("weight", 1)
		for part in parts:
			if part:
				chunks.append((json.loads(envs), part))
	chunks.sort(key=lambda c: -sum(u.get("weight", 1) for u in c[1]))
	return chunks


def load_known():
	p = os.path.join(HERE, "known_findings.json")
	if not os.path.exists(p):
		return []
	with open(p) as fh:
		return json.load(fh).get("findings", [])


ENV_VARIANTS = [({"VERIF_DEFAULT_DTYPE": "float64"}, 5, 4),
	({"MALLOC_PERTURB_": "90"}, 7, 1), ({"MALLOC_PERTURB_": "165"}, 7, 3)]


def add_env_variants(mod, units):
	"""Process-wide settings that must not matter: every n-th unit of the
	plan is executed again in a worker with that setting (module attribute
	ENV_VARIANTS overrides the default list; [] switches it off).
	  VERIF_DEFAULT_DTYPE  the caller has changed torch's default dtype
	  MALLOC_PERTURB_      glibc fills every malloc'ed and freed block with a
	                       byte pattern: results that depend on uninitialised
	                       or out-of-bounds heap reads change with the value
	                       (a poor man's memory sanitizer for the compiled
	                       numba kernels and the torch/numpy buffers)."""
	out = list(units)
	for env, every, off in getattr(mod, "ENV_VARIANTS", ENV_VARIANTS):
		for i, u in enumerate(units):
			if i % every == off % every or len(units) <= off and i == 0:
				u2 = dict(u)
				u2["env"] = dict(u.get("env") or {}, **env)
				out.append(u2)
	return out


def write_replay(pid, v):
	d = os.path.join(HERE, "replays")
	os.makedirs(d, exist_ok=True)
	name = "%s-%s.json" % (pid, short_hash(canon(v)))
	path = os.path.join(d, name)
	with open(path, "w") as fh:
		json.dump({"property": pid, "class": v["class"], "params": v["params"],
			"mech": v.get("mech"), "detail": v.get("detail"),
			**({"env": v["env"]} if v.get("env") else {})}, fh, indent=1,
			default=str)
	return os.path.join("replays", name)


def write_evidence(mod, tier, seed, rec, wall, extra):
	os.makedirs(os.path.join(HERE, "evidence"), exist_ok=True)
	samples = []
	for cls in sorted(rec.samples):
		samples.extend(rec.samples[cls][:1])
	for cls in sorted(rec.samples):
		samples.extend(rec.samples[cls][1:2])
	samples = samples[:8]
	evaluations = sum(c["n"] for c in rec.classes.values())
	classes = sorted(rec.classes)
	exhaustive = bool(classes) and all(rec.exhaustive.get(c, False)
		for c in classes)
	cov = {
		"evaluations": evaluations,
		"distinct_nontrivial": rec.distinct_nontrivial(),
		"rule": mod.RULE,
		"samples": samples,
		"exhaustive": exhaustive,
		"exhaustive_classes": sorted(c for c in classes
			if rec.exhaustive.get(c, False)),
		"classes": rec.classes,
		"refusals": sum(c["refusal"] for c in rec.classes.values()),
		"inconclusive": sum(c["inconclusive"] for c in rec.classes.values()),
		"counters": rec.counters,
		"observed_sets": {k: {"n": len(v), "first": sorted(v, key=str)[:12]}
			for k, v in rec.sets.items()},
		"max": rec.maxs, "min": rec.mins,
		"violations_by_mechanism": rec.viol_by_mech,
	}
	cov.update(extra)
	ev = {
		"property_id": mod.ID, "tier": tier, "seed": seed,
		"level": mod.LEVEL, "coverage": cov,
		"assumptions": list(getattr(mod, "ASSUMPTIONS", [])),
		"wall_s": round(wall, 2),
		"violations": rec.n_violations,
	}
	path = os.path.join(HERE, "evidence", mod.ID + ".json")
	tmp = path + ".tmp"
	with open(tmp, "w") as fh:
		json.dump(ev, fh, indent=1, default=str)
	os.replace(tmp, path)
	return ev


def decide(mod, rec, harness_errors, dead_chunks, n_chunks, replay=False):
	"""-> (exit status, lines to print)"""
	pid = mod.ID
	lines = []
	known = {f["key"]: f for f in load_known() if f.get("property") == pid}
	status = 0
	seen_known, seen_new = set(), {}
	for v in rec.violations:
		m = v["mech"]
		if m in known:
			seen_known.add(m)
		else:
			seen_new.setdefault(m, v)
	# violations that were counted but whose records were dropped
	for m in rec.viol_by_mech:
		if m in known:
			seen_known.add(m)
		elif m not in seen_new:
			seen_new[m] = {"class": "?", "params": {}, "mech": m,
				"detail": "record dropped (cap); re-run to obtain"}
	for m in sorted(seen_known):
		lines.append("KNOWN-FINDING: property=%s %s [%s, %d case(s)]" % (pid,
			known[m]["what"], m, rec.viol_by_mech.get(m, 0)))
	for m in sorted(seen_new):
		v = seen_new[m]
		path = write_replay(pid, v)
		lines.append("VIOLATION property=%s replay=%s" % (pid, path))
		lines.append("  mechanism=%s class=%s cases=%d" % (m, v["class"],
			rec.viol_by_mech.get(m, 1)))
		lines.append("  detail: %s" % (str(v.get("detail"))[:1500],))
		status = 1
	if status == 0:
		reasons = []
		if harness_errors:
			reasons.append("%d harness error(s): %s" % (len(harness_errors),
				harness_errors[0][:600]))
		if n_chunks and dead_chunks == n_chunks:
			reasons.append("every worker died or timed out")
		evaluations = sum(c["n"] for c in rec.classes.values())
		if evaluations == 0:
			reasons.append("no case executed")
		for name, least in ({} if replay else getattr(mod, "REQUIRED",
			{})).items():
			if name.startswith("set:"):
				got = len(rec.sets.get(name[4:], ()))
			else:
				got = rec.counters.get(name, 0)
			if got < least:
				reasons.append("required monitor %s observed %d < %d" % (name,
					got, least))
		if rec.distinct_nontrivial() < 2 and not replay:
			reasons.append("fewer than 2 non-trivial cases")
		if reasons:
			status = 2
			lines.append("INCONCLUSIVE property=%s %s" % (pid,
				"; ".join(reasons)))
	return status, lines


def main(argv):
	if len(argv) < 2:
		print("usage: check <ID> <quick|thorough> [--replay FILE]")
		return 2
	pid, tier = argv[0].upper(), argv[1]
	if tier not in ("quick", "thorough"):
		print("tier must be quick or thorough")
		return 2
	seed = int(os.environ.get("VERIF_SEED", "0"))
	mod = importlib.import_module("vf.props." + pid.lower())
	cache_dir, th = numba_cache_dir()
	os.environ["NUMBA_CACHE_DIR"] = cache_dir
	os.environ["VERIF_TIER"] = tier
	t0 = time.time()

	if "--replay" in argv:
		path = argv[argv.index("--replay") + 1]
		with open(path) as fh:
			case = json.load(fh)
		if hasattr(mod, "replay_env"):
			renv = mod.replay_env(case)
		else:
			renv = dict(getattr(mod, "REPLAY_ENV", {}))
			if "boundscheck" in str(case.get("class", "")):
				renv["NUMBA_BOUNDSCHECK"] = "1"
		renv.update(case.get("env") or {})
		units = [{"cls": "__replay__", "case": case, "env": renv}]
	else:
		units = add_env_variants(mod, mod.plan(tier, seed))
	timeout = int(os.environ.get("VERIF_CHUNK_TIMEOUT", "0")) or getattr(mod,
		"TIMEOUT", {}).get(tier, 900 if tier == "quick" else 7200)
	target = getattr(mod, "CHUNKS", {}).get(tier, NCPU * 2)
	chunks = make_chunks(units, target)
	tmpdir = tempfile.mkdtemp(prefix="run-%s-" % pid, dir=WORK)
	rec = Recorder()
	harness_errors, dead = [], 0
	jobs = getattr(mod, "JOBS", {}).get(tier, NCPU)
	try:
		with concurrent.futures.ThreadPoolExecutor(max_workers=jobs) as ex:
			futs = [ex.submit(run_chunk, pid, us, env, timeout, tmpdir, i)
				for i, (env, us) in enumerate(chunks)]
			for f in concurrent.futures.as_completed(futs):
				r = f.result()
				if r["res"] is not None:
					rec.merge(r["res"]["rec"])
					harness_errors.extend(r["res"].get("harness_errors", []))
					done = r["res"].get("units_done", 0)
				else:
					done = 0
				if r["status"] != 0 or r["res"] is None:
					dead += 1
					rec.count("chunks_died_or_timed_out")
					rec.count("units_not_completed", r["n_units"] - done)
					rec.note("chunk %d status=%s log tail: %s" % (r["idx"],
						r["status"], r["log"][-600:]))
					if r["status"] not in (0, "timeout") and r["res"] is None:
						harness_errors.append("worker exit %s: %s" % (
							r["status"], r["log"][-800:]))
	finally:
		shutil.rmtree(tmpdir, ignore_errors=True)

	wall = time.time() - t0
	status, lines = decide(mod, rec, harness_errors, dead, len(chunks),
		replay="--replay" in argv)
	extra = {"tree_hash": th, "repo": REPO, "chunks": len(chunks),
		"chunks_died_or_timed_out": dead, "harness_errors": len(harness_errors),
		"notes": rec.notes[:20],
		"verdict": {0: "held on everything observed", 1: "violated",
			2: "inconclusive"}[status]}
	if "--replay" not in argv:
		ev = write_evidence(mod, tier, seed, rec, wall, extra)
	evaluations = sum(c["n"] for c in rec.classes.values())
	print("%s %s seed=%d tree=%s: %d cases (%d distinct non-trivial), "
		"%d refusals, %d inconclusive, %d violations, %.1fs" % (pid, tier, seed,
		th, evaluations, rec.distinct_nontrivial(),
		sum(c["refusal"] for c in rec.classes.values()),
		sum(c["inconclusive"] for c in rec.classes.values()),
		rec.n_violations, wall))
	for cls in sorted(rec.classes):
		c = rec.classes[cls]
		print("  %-34s n=%-8d held=%-8d refusal=%-6d inconcl=%-6d viol=%d" % (
			cls, c["n"], c["held"], c["refusal"], c["inconclusive"],
			c["violation"]))
	for e in harness_errors[:3]:
		print("HARNESS-ERROR: " + e[:3000])
	for l in lines:
		print(l)
	return status


if __name__ == "__main__":
	sys.exit(main(sys.argv[1:]))
