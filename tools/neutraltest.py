#!/venv/bin/python
"""Confirm a NEUTRAL change (one that keeps the property true) and run the
checks against it: the demo must pass with and without the diff, the existing
tests must pass, and the property's check must stay silent (exit 0).  Stored in
/verif/neutral/<name>/ (patch.diff, demo.py, meta.json).  Derived from
seedtest.py; same arguments.

--- original description of seedtest.py: ---
Confirm a seeded change and run the checks against it.

usage: seedtest.py <PROPERTY_ID> <diff> <demo.py> <meta.json> <name> [--tests "tests/a.py tests/b.py"] [--tier quick] [--checks C01,C02]

1. fresh scratch worktree of /repo HEAD under /tmp/seedtest/<name>
2. demo on the unchanged worktree must pass; with the diff applied must fail
3. the existing tests named in --tests (default: guessed from the files the
   diff touches) must pass with the diff applied
4. ./check <ID> <tier> with VERIF_REPO=<worktree> must exit 1 and print VIOLATION
5. on success of 2+3 the change is stored in /verif/seeded/<name>/ with what was
   run; the worktree is removed.
"""

import argparse
import json
import os
import re
import shutil
import subprocess
import sys
import time

HERE = os.path.dirname(os.path.dirname(os.path.abspath(__file__)))

TESTS_FOR = {
	"ersatz.py": "tests/test_ersatz.py", "utils.py": "tests/test_utils.py",
	"predict.py": "tests/test_predict.py",
	"deep_lift_shap.py": "tests/test_deep_lift_shap.py",
	"ism.py": "tests/test_ism.py", "marginalize.py": "tests/test_marginalize.py",
	"ablate.py": "tests/test_ablate.py", "space.py": "tests/test_space.py",
	"product.py": "tests/test_product.py",
	"variant_effect.py": "tests/test_variant_effect.py",
	"fimo.py": "tests/tools/test_fimo.py",
	"tomtom.py": "tests/tools/test_tomtom.py",
	"io.py": "tests/test_io.py", "match.py": "tests/test_match.py",
	"annotate.py": "tests/test_annotate.py", "kmers.py": "tests/test_kmers.py",
	"seqlet.py": "tests/test_seqlet.py", "design.py": "",
}
BASELINE_FAIL = re.compile(r"test_captum_|test_cmd_tomtom")


def sh(cmd, cwd=None, env=None, timeout=3600):
	p = subprocess.run(cmd, shell=True, cwd=cwd, env=env, timeout=timeout,
		stdout=subprocess.PIPE, stderr=subprocess.STDOUT)
	return p.returncode, p.stdout.decode(errors="replace")


def main():
	ap = argparse.ArgumentParser()
	ap.add_argument("pid")
	ap.add_argument("diff")
	ap.add_argument("demo")
	ap.add_argument("meta")
	ap.add_argument("name")
	ap.add_argument("--tests", default=None)
	ap.add_argument("--tier", default="quick")
	ap.add_argument("--checks", default=None)
	ap.add_argument("--skip-tests", action="store_true")
	a = ap.parse_args()
	wt = "/tmp/neutraltest/" + a.name
	os.makedirs("/tmp/neutraltest", exist_ok=True)
	if os.path.exists(wt):
		sh("git -C /repo worktree remove --force " + wt)
	rc, out = sh("git -C /repo worktree add -q --detach %s HEAD" % wt)
	assert rc == 0, out
	report = {"property": a.pid, "name": a.name, "ran": []}
	env = dict(os.environ, PYTHONPATH=wt, NUMBA_CACHE_DIR=wt + "/.nbcache",
		OMP_NUM_THREADS="4")
	env.pop("TANGERMEME_VERIF", None)
	try:
		shutil.copy(a.demo, wt + "/_demo.py")
		rc0, out0 = sh("/venv/bin/python _demo.py", cwd=wt, env=env,
			timeout=1200)
		report["demo_unchanged_exit"] = rc0
		rc, out = sh("git apply " + os.path.abspath(a.diff), cwd=wt)
		if rc != 0:
			report["error"] = "diff does not apply: " + out[-400:]
			print(json.dumps(report, indent=1))
			return 2
		rc1, out1 = sh("/venv/bin/python _demo.py", cwd=wt, env=env,
			timeout=1200)
		report["demo_mutant_exit"] = rc1
		report["demo_mutant_tail"] = out1[-400:]
		report["ran"].append("demo on unchanged worktree (exit %d) and with "
			"the diff applied (exit %d)" % (rc0, rc1))
		_, files = sh("git diff --name-only", cwd=wt)
		files = [f for f in files.split() if f.endswith(".py")]
		report["files"] = files
		tests = a.tests
		if tests is None:
			tests = " ".join(sorted({TESTS_FOR.get(os.path.basename(f), "")
				for f in files} - {""}))
		tests_ok = True
		if tests and not a.skip_tests:
			rc, out = sh("/venv/bin/python -m pytest -q -p no:cacheprovider "
				"-x -n 4 --timeout=900 %s 2>&1 | tail -15" % tests, cwd=wt,
				env=env, timeout=3600)
			failed = [l for l in out.splitlines() if l.startswith("FAILED")
				and not BASELINE_FAIL.search(l)]
			tests_ok = not failed and ("passed" in out)
			report["tests"] = tests
			report["tests_tail"] = out[-500:]
			report["ran"].append("pytest %s with the diff applied: %s" % (
				tests, "pass" if tests_ok else "FAIL"))
		report["tests_ok"] = tests_ok
		confirmed = rc0 == 0 and rc1 == 0 and tests_ok
		report["confirmed"] = confirmed
		checks = (a.checks or a.pid).split(",")
		report["checks"] = {}
		for c in checks:
			t0 = time.time()
			cenv = dict(os.environ, VERIF_REPO=wt)
			rc, out = sh("./check %s %s" % (c, a.tier), cwd=HERE, env=cenv,
				timeout=7200)
			viol = [l for l in out.splitlines() if l.startswith("VIOLATION")]
			mechs = [l.strip() for l in out.splitlines()
				if l.strip().startswith("mechanism=")]
			report["checks"][c] = {"exit": rc, "violations": len(viol),
				"mechanisms": mechs[:6], "wall_s": round(time.time() - t0, 1),
				"tail": out[-300:] if rc not in (0, 1) else ""}
			report["ran"].append("VERIF_REPO=<worktree with diff> ./check %s "
				"%s -> exit %d, %d VIOLATION line(s)" % (c, a.tier, rc,
				len(viol)))
		if confirmed:
			d = os.path.join(HERE, "neutral", a.name)
			os.makedirs(d, exist_ok=True)
			shutil.copy(a.diff, d + "/patch.diff")
			shutil.copy(a.demo, d + "/demo.py")
			meta = {}
			try:
				meta = json.load(open(a.meta))
			except Exception:
				pass
			meta.update({"property": a.pid, "confirmed_by": report["ran"],
				"files": files, "check_exit": {c: v["exit"] for c, v in
				report["checks"].items()}, "alarms": {c: v["mechanisms"]
				for c, v in report["checks"].items() if v["exit"] != 0}})
			json.dump(meta, open(d + "/meta.json", "w"), indent=1)
	finally:
		sh("git -C /repo worktree remove --force " + wt)
		sh("git -C /repo worktree prune")
	print(json.dumps(report, indent=1))
	return 0


if __name__ == "__main__":
	sys.exit(main())
