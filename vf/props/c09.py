"""C09  Saturation mutagenesis reports each single-character mutant at its own
index.

Monitor: every call of ism.saturation_mutagenesis made by the workload is
observed at the API boundary (return value or exception).  The model is built
by the harness: an exact-integer float64 model whose weights are distinct per
(output channel, character, position), with a quadratic term (so it is not
merely additive), optional trailing output dimensions, optional tuple / list
outputs of 2-3 tensors and 0-2 extra per-example arguments whose values are
specific to their example.

Oracle (shares no code with tangermeme, nor with the torch forward of the
model): the model function re-implemented in numpy on *index* sequences,
evaluated on explicitly constructed mutants ("set position p of sequence n to
character c") and stored at [n, c, p-start]; the attribution formula written
from the property statement (difference from y0, centred across characters at
each position, target selected, averaged over the remaining output dims,
masked by the observed character unless hypothetical).

Mechanism keys are assigned by *differential observation*, not by looking at
the source: e.g. a raise with a negative `end` is keyed negative-end-raises
only if the same call with the equivalent non-negative `end` returns; a wrong
tuple output is keyed tuple-output-scrambled only if the same model returning
that output as a single tensor is reported correctly.
"""

import numpy
import torch

from .. import gen

ID = "C09"
LEVEL = "exploration"
RULE = ("one case = one saturation_mutagenesis() call for (alphabet size A, "
	"length L, window (start, end), batch_size, model output structure, "
	"number of per-example args, n examples, X dtype, and for mode=attr the "
	"(target, hypothetical) pair); X, integer weights and arg values come "
	"from the case seed.  Classes win / negend enumerate ALL windows 0 <= "
	"start < end <= L (negend: every negative end, L+1+end > start) for every "
	"A in 2..5 and every L up to the tier bound (quick 7, thorough 30), each "
	"window with tensor outputs (n,), (n,T), (n,T,K) and tuple/list outputs "
	"of 2-3 tensors (L > 12: one single-tensor and one multi-tensor "
	"structure per window, rotating); "
	"class batch enumerates every batch size 1..A*W+1 for every window of "
	"small L; class attr enumerates windows x (int / negative int / slice / "
	"None target) x hypothetical for tensor models; class rand draws L up to "
	"30.  Non-trivial = the A*W mutants of every example have W*(A-1)+1 "
	"distinct expected outputs (every mutant identifiable, only the W "
	"no-op mutants coincide with y0) and A*W >= 2; distinct = distinct "
	"parameter tuples.")
ASSUMPTIONS = [
	"device='cpu'; the model is float64 and exact in integers (|values| < "
	"2**53), so raw outputs are compared bit-for-bit and attributions with "
	"atol 1e-12 * max|expected y_hat| (three or four float64 roundings)",
	"negative end e denotes L+1+e (the default end=-1 is the whole sequence; "
	"ism._edit_distance_one: 'Can be negative indexes'); e is only generated "
	"with L+1+e > start",
	"every window 0 <= start < end <= L is valid: a raise there is a "
	"violation, for tensor and for tuple/list outputs (raw_outputs=True)",
	"attributions (raw_outputs=False) are only demanded for single-tensor "
	"models (docstring: 'the model cannot return multiple tensors'); "
	"int targets index the first output dimension and are generated in "
	"range, slices are non-empty; for (n,) outputs only target=None is used "
	"and a raise there is a refusal",
	"subtracting y0 before centring across characters cancels algebraically; "
	"the oracle does not (cannot) demand that it is subtracted",
	"return dtype / container type (list vs tuple) are not demanded",
]
REQUIRED = {"view_model_cases": 50, "proper_window_cases": 20, "neg_end_cases": 10, "args_cases": 20,
	"attr_cases": 20, "multi_output_cases": 20, "batch_not_dividing": 20,
	"mutants_identifiable": 50}
TIMEOUT = {"quick": 900, "thorough": 5400}

DT = {"int8": torch.int8, "float32": torch.float32, "float64": torch.float64}
ARG_SHAPES = [(), (1,), (2,), (2, 3)]
ARG_DT = [torch.float64, torch.int64, torch.float32]

# (container, output shapes without the batch dimension)
KINDS = [
	("tensor", [[3]]),
	("tuple", [[2], []]),
	("tensor", [[2, 3]]),
	("list", [[1], [2, 2], [3]]),
	("tensor", [[]]),
	("tuple", [[2, 2], [1]]),
	("tensor", [[1]]),
]
TENSOR_KINDS = [k for k in KINDS if k[0] == "tensor"]
LALL = 12     # up to this length every window meets every output structure


# --------------------------------------------------------------------------
# harness-built model and its independent numpy twin
# --------------------------------------------------------------------------

def _prod(shape):
	p = 1
	for s in shape:
		p *= int(s)
	return p


def make_weights(seed, D, A, L):
	"""Integer weights W (D, A, L), distinct per (channel, character, position);
	in channel 0 all ordered differences W[c,p]-W[o,p] (c != o) are distinct,
	so every substitution changes the linear part by its own amount.  U are
	small weights of the quadratic term."""
	r = gen.nprng(ID, "W", seed, D, A, L)
	W = None
	for _ in range(64):
		W = r.integers(1, 1 << 20, size=(D, A, L), dtype=numpy.int64)
		d = W[0][:, None, :] - W[0][None, :, :]
		vals = d[~numpy.eye(A, dtype=bool)]
		if numpy.unique(vals).size == vals.size and numpy.unique(W).size == \
			W.size:
			break
	U = r.integers(0, 64, size=(D, A, L), dtype=numpy.int64)
	return W, U


def arg_coef(n_args, D):
	j = numpy.arange(n_args, dtype=numpy.int64)[:, None]
	d = numpy.arange(D, dtype=numpy.int64)[None, :]
	return (j + 2) * (d + 1) + j


class ExactModel(torch.nn.Module):
	"""y_flat[b, d] = sum_{p} W[d, x_p, p] + (sum_p U[d, x_p, p])**2
	               + sum_j coef[j, d] * sum_k (k+1) * arg_j[b].flat[k]
	split into the output shapes; returned as a tensor, a tuple or a list.
	`ret=k` returns output k alone as a tensor (differential diagnosis)."""

	def __init__(self, W, U, outs, container, n_args, with_param, ret=None):
		super().__init__()
		self.register_buffer("W", torch.from_numpy(W).to(torch.float64))
		self.register_buffer("U", torch.from_numpy(U).to(torch.float64))
		self.register_buffer("coef", torch.from_numpy(arg_coef(n_args,
			W.shape[0])).to(torch.float64))
		if with_param:
			self.p = torch.nn.Parameter(torch.zeros(1, dtype=torch.float64))
		self.outs = [tuple(o) for o in outs]
		self.container = container
		self.ret = ret
		self.n_forward = 0
		self.rows = 0

	def forward(self, X, *args):
		self.n_forward += 1
		self.rows += X.shape[0]
		x = X.to(torch.float64)
		lin = torch.einsum("bal,dal->bd", x, self.W)
		q = torch.einsum("bal,dal->bd", x, self.U)
		y = lin + q * q
		for j, a in enumerate(args):
			a2 = a.reshape(a.shape[0], -1).to(torch.float64)
			v = torch.arange(1, a2.shape[1] + 1, dtype=torch.float64)
			y = y + self.coef[j][None, :] * (a2 * v[None, :]).sum(dim=1,
				keepdim=True)
		res, off = [], 0
		for o in self.outs:
			k = _prod(o)
			res.append(y[:, off:off + k].reshape(y.shape[0], *o))
			off += k
		if getattr(self, "mixed", False) and len(res) >= 2:
			# outputs of different dtypes: an integer head first, then a
			# float head with non-integer values (exact in float64)
			res[0] = res[0].to(torch.int64)
			res[1] = res[1] + 0.5
		if self.ret is not None:
			return res[self.ret]
		if self.container == "tensor":
			return res[0]
		if self.container == "tuple":
			return tuple(res)
		return list(res)


class ViewModel(torch.nn.Module):
	"""Parameter-free pass-through: the output shares memory with the input
	whenever the input is contiguous (an Identity / Flatten head)."""

	def __init__(self):
		super().__init__()
		self.n_forward = 0
		self.rows = 0

	def forward(self, X, *args):
		self.n_forward += 1
		self.rows += X.shape[0]
		return X.reshape(X.shape[0], -1)


def f_np(W, U, M, argsum):
	"""numpy twin on index sequences M (K, L) -> (K, D) int64."""
	ar = numpy.arange(M.shape[1])
	lin = W[:, M, ar].sum(axis=-1)
	q = U[:, M, ar].sum(axis=-1)
	return (lin + q * q).T + argsum[None, :]


class Ctx:
	"""Everything derived from the case parameters: X, args, weights, and the
	oracle's expected values."""

	def __init__(self, params):
		self.A, self.L, self.n = params["A"], params["L"], params["n"]
		self.seed = params["seed"]
		self.container = params["container"]
		self.outs = [tuple(o) for o in params["outs"]]
		self.sizes = [_prod(o) for o in self.outs]
		self.D = sum(self.sizes)
		self.n_args = params["n_args"]
		self.with_param = params.get("with_param", True)
		self.W, self.U = make_weights(self.seed, self.D, self.A, self.L)
		self.view_model = bool(params.get("view_model"))
		if self.view_model:
			# the model returns (a view of) its flattened input: output d is
			# the one-hot cell d = a*L + p, i.e. the indicator weights below
			assert self.D == self.A * self.L and self.n_args == 0
			self.W = numpy.zeros((self.D, self.A, self.L), dtype=numpy.int64)
			for a_ in range(self.A):
				for p_ in range(self.L):
					self.W[a_ * self.L + p_, a_, p_] = 1
			self.U = numpy.zeros_like(self.W)
		r = gen.nprng(ID, "X", self.seed, self.A, self.L, self.n)
		self.idx = r.integers(0, self.A, size=(self.n, self.L))
		# unknown characters (all-zero columns, index A in the oracle whose
		# weight tables get an extra all-zero row): every one of the A
		# substitutions at such a position is a real mutant
		self.n_unknown = params.get("n_unknown", 0)
		self.Wmodel, self.Umodel = self.W, self.U
		if self.n_unknown:
			for i in range(self.n):
				for p_ in r.choice(self.L, size=min(self.L, self.n_unknown),
					replace=False):
					self.idx[i, p_] = self.A
			z = numpy.zeros((self.D, 1, self.L), dtype=self.W.dtype)
			self.W = numpy.concatenate([self.W, z], axis=1)
			self.U = numpy.concatenate([self.U, z.astype(self.U.dtype)],
				axis=1)
		self.mixed = bool(params.get("mixed_dtypes")) and len(
			self.outs) >= 2 and self.container != "tensor"
		a = (self.idx[:, None, :] == numpy.arange(self.A)[None, :, None])
		self.X = torch.from_numpy(a.astype(numpy.int8)).type(
			DT[params.get("xdtype", "int8")])
		# per-example args: element values (base_i*100 + noise), base distinct
		self.args_np, self.args = [], []
		for j in range(self.n_args):
			shape = ARG_SHAPES[(self.seed + j) % len(ARG_SHAPES)]
			base = (r.permutation(40)[:self.n] + 1).reshape((self.n,) +
				(1,) * len(shape))
			v = base * 100 + r.integers(0, 100, size=(self.n,) + shape)
			self.args_np.append(v.astype(numpy.int64))
			self.args.append(torch.from_numpy(v.astype(numpy.int64)).type(
				ARG_DT[(self.seed // 3 + j) % len(ARG_DT)]))
		coef = arg_coef(self.n_args, self.D)
		self.argsum = numpy.zeros((self.n, self.D), dtype=numpy.int64)
		for j, v in enumerate(self.args_np):
			flat = v.reshape(self.n, -1)
			s = (flat * numpy.arange(1, flat.shape[1] + 1)[None, :]).sum(axis=1)
			self.argsum += s[:, None] * coef[j][None, :]
		self._cache = {}

	def model(self, ret=None):
		if self.view_model:
			return ViewModel()
		m = ExactModel(self.Wmodel, self.Umodel, self.outs, self.container,
			self.n_args, self.with_param, ret=ret)
		m.mixed = self.mixed
		return m

	def args_tuple(self, as_list=False):
		if self.n_args == 0:
			return None
		return list(self.args) if as_list else tuple(self.args)

	def split(self, flat):
		res, off = [], 0
		for o, k in zip(self.outs, self.sizes):
			res.append(flat[..., off:off + k].reshape(flat.shape[:-1] + o)
				.astype(numpy.float64))
			off += k
		if self.mixed:
			res[1] = res[1] + 0.5
		return res

	def expected(self, start, stop):
		"""-> dict with y0 / yhat (lists over outputs), the no-arg flat yhat and
		the number of distinct mutant outputs per example."""
		key = (start, stop)
		if key in self._cache:
			return self._cache[key]
		n, A, L, D = self.n, self.A, self.L, self.D
		Wn = stop - start
		y0 = numpy.zeros((n, D), dtype=numpy.int64)
		yh = numpy.zeros((n, A, Wn, D), dtype=numpy.int64)
		yh_na = numpy.zeros((n, A, Wn, D), dtype=numpy.int64)
		ident = True
		zero = numpy.zeros(D, dtype=numpy.int64)
		for i in range(n):
			s = self.idx[i]
			y0[i] = f_np(self.W, self.U, s[None, :], self.argsum[i])[0]
			cs, ps = numpy.meshgrid(numpy.arange(A), numpy.arange(start, stop),
				indexing="ij")
			cs, ps = cs.ravel(), ps.ravel()
			M = numpy.repeat(s[None, :], cs.size, axis=0)
			M[numpy.arange(cs.size), ps] = cs      # position p := character c
			Y = f_np(self.W, self.U, M, zero)
			yh_na[i, cs, ps - start] = Y
			yh[i, cs, ps - start] = Y + self.argsum[i][None, :]
			n_unk = int((s[start:stop] == A).sum())
			if numpy.unique(Y, axis=0).shape[0] != Wn * (A - 1) + n_unk + (
				0 if n_unk == Wn else 1):
				ident = False
		assert numpy.abs(yh).max() < 2 ** 52
		e = {"y0": self.split(y0), "yhat": self.split(yh), "yhat_flat": yh,
			"yhat_noarg": self.split(yh_na), "identifiable": ident and
			A * Wn >= 2}
		self._cache[key] = e
		return e


def to_np(t):
	return t.detach().cpu().to(torch.float64).numpy()


def eff_end(end, L):
	return end if end >= 0 else L + 1 + end


def parse_target(t):
	if isinstance(t, (list, tuple)):
		return slice(t[1], t[2], t[3])
	return t


# --------------------------------------------------------------------------
# observation + judgement of one raw call
# --------------------------------------------------------------------------

def observe_raw(ctx, start, end, batch_size, ret=None, as_list=False):
	from tangermeme.ism import saturation_mutagenesis
	model = ctx.model(ret=ret)
	st, val = gen.call(saturation_mutagenesis, model, ctx.X,
		args=ctx.args_tuple(as_list), start=start, end=end,
		batch_size=batch_size, raw_outputs=True, device="cpu")
	return st, val, model


def first_diff(got, exp):
	bad = numpy.argwhere(got != exp)
	return [int(x) for x in bad[0]] if len(bad) else None


def locate(exp_full, vec):
	"""Where (c, p-start) does an observed output vector occur among the
	expected mutants of this example?  (mutants are identifiable)"""
	A, Wn = exp_full.shape[:2]
	flat = exp_full.reshape(A * Wn, -1)
	hits = numpy.nonzero((flat == vec.reshape(1, -1)).all(axis=1))[0]
	return [[int(h // Wn), int(h % Wn)] for h in hits[:4]]


def judge_raw(ctx, start, end, batch_size, ret=None, as_list=False):
	"""-> (status, detail); status in ok / raise / structure / y0 / shape /
	values."""
	stop = eff_end(end, ctx.L)
	e = ctx.expected(start, stop)
	st, val, model = observe_raw(ctx, start, end, batch_size, ret, as_list)
	if st == "raise":
		return "raise", {"error": repr(val)[:300]}
	if not isinstance(val, (tuple, list)) or len(val) != 2:
		return "structure", {"what": "raw_outputs=True did not return a "
			"(y0, y_hat) pair", "type": type(val).__name__}
	y0, yh = val
	single = ctx.container == "tensor" or ret is not None
	ks = [ret if ret is not None else 0] if single else list(range(len(
		ctx.outs)))
	if single:
		if not isinstance(y0, torch.Tensor) or not isinstance(yh, torch.Tensor):
			return "structure", {"what": "single-tensor model: y0 / y_hat are "
				"%s / %s" % (type(y0).__name__, type(yh).__name__)}
		y0, yh = [y0], [yh]
	else:
		for name, v in (("y0", y0), ("y_hat", yh)):
			if not isinstance(v, (tuple, list)) or len(v) != len(ks) or \
				not all(isinstance(t, torch.Tensor) for t in v):
				return "structure", {"what": "%d-output model: %s is %s of "
					"length %s" % (len(ks), name, type(v).__name__,
					len(v) if hasattr(v, "__len__") else "?")}
	# y0
	for j, k in enumerate(ks):
		g, x = to_np(y0[j]), e["y0"][k]
		if g.shape != x.shape:
			return "y0", {"output": k, "what": "y0 shape %s, expected %s" % (
				list(g.shape), list(x.shape))}
		if not numpy.array_equal(g, x):
			d = first_diff(g, x)
			return "y0", {"output": k, "index": d, "got": float(g[tuple(d)]),
				"expected": float(x[tuple(d)])}
	# y_hat
	for j, k in enumerate(ks):
		g, x = to_np(yh[j]), e["yhat"][k]
		if g.shape != x.shape:
			return "shape", {"output": k, "what": "y_hat shape %s, expected "
				"(n, A, end-start, *out) = %s" % (list(g.shape), list(x.shape))}
	for j, k in enumerate(ks):
		g, x = to_np(yh[j]), e["yhat"][k]
		if not numpy.array_equal(g, x):
			d = first_diff(g, x)
			i, c, pp = d[0], d[1], d[2]
			det = {"output": k, "example": i, "character": c,
				"position": pp + start, "index_in_window": pp,
				"sequence": [int(v) for v in ctx.idx[i]],
				"got": g[i, c, pp].ravel().tolist()[:8],
				"expected": x[i, c, pp].ravel().tolist()[:8],
				"n_wrong_entries": int((g != x).sum()),
				"n_entries": int(x.size)}
			if e["identifiable"]:
				det["got_equals_expected_mutant_[c,p-start]"] = locate(x[i],
					g[i, c, pp])
			# would the entry be right under a (positions, characters)
			# re-interpretation of character-major data?
			A, Wn = x.shape[1], x.shape[2]
			alt = x.reshape((x.shape[0], A * Wn) + x.shape[3:]).reshape(
				(x.shape[0], Wn, A) + x.shape[3:]).swapaxes(1, 2)
			det["equals_reshape_(n,W,A)_transposed"] = bool(
				numpy.array_equal(g, alt))
			det["_g"], det["_k"] = g, k
			return "values", det
	return "ok", {"forward_calls": model.n_forward, "rows": model.rows}


def args_residual_constant(ctx, e, det):
	"""Is the observed y_hat of output k the no-arg oracle plus a per-example
	constant that is not the example's own arg term?"""
	g, k = det["_g"], det["_k"]
	res = g - e["yhat_noarg"][k]
	own = e["yhat"][k] - e["yhat_noarg"][k]
	wrong = False
	for i in range(res.shape[0]):
		r = res[i].reshape((-1,) + res.shape[3:])
		if not (r == r[:1]).all():
			return False
		if not numpy.array_equal(res[i], own[i]):
			wrong = True
	return wrong


def clean(det):
	return {k: v for k, v in det.items() if not k.startswith("_")}


def diagnose_raw(ctx, start, end, batch_size, as_list=False):
	"""Runs the raw call and names the mechanism.  -> (mech or None, detail)"""
	L = ctx.L
	stop = eff_end(end, L)
	e = ctx.expected(start, stop)
	status, det = judge_raw(ctx, start, end, batch_size, as_list=as_list)
	if status == "ok":
		return None, det
	multi = ctx.container != "tensor"
	full = (start == 0 and stop == L)
	det = dict(det)
	det["observed"] = status

	# negative end: does the equivalent non-negative end behave?
	if end < 0:
		s2, d2 = judge_raw(ctx, start, stop, batch_size, as_list=as_list)
		det["same_call_with_end=%d" % stop] = s2
		if s2 == "ok":
			if status == "raise":
				return "C09/negative-end-raises", clean(det)
			return "C09/negative-end-wrong-window", clean(det)
		# the defect does not depend on the sign of end: continue with the
		# non-negative form
		status, det0 = s2, det
		det = dict(d2)
		det["observed"] = s2
		det["first_seen_with_end"] = end
		det["error_with_negative_end"] = det0.get("error")
		end = stop

	if multi:
		# same model, each output returned alone as a single tensor
		k = det.get("output", 0) if status in ("values", "shape", "y0") else 0
		s3, d3 = judge_raw(ctx, start, end, batch_size, ret=k, as_list=as_list)
		det["same_model_returning_output_%d_as_tensor" % k] = s3
		if s3 == "ok":
			if status == "raise":
				return ("C09/tuple-output-raises" if full else
					"C09/tuple-output-window-raises"), clean(det)
			if status == "values":
				return "C09/tuple-output-scrambled", clean(det)
			if status == "shape":
				return "C09/tuple-output-shape", clean(det)
			if status == "y0":
				return "C09/tuple-output-y0-wrong", clean(det)
			return "C09/tuple-output-structure", clean(det)
		# the single-tensor form is wrong as well: classify that one
		status, det = s3, dict(d3)
		det["observed"] = s3
		det["also_wrong_for_container"] = ctx.container

	if status == "raise":
		return "C09/raises-on-valid-window", clean(det)
	if status == "structure":
		return "C09/return-structure", clean(det)
	if status == "y0":
		return "C09/y0-wrong", clean(det)
	if status == "shape":
		return "C09/y_hat-shape", clean(det)
	if ctx.n_args and args_residual_constant(ctx, e, det):
		det["what"] = ("y_hat equals the model without extra args plus a "
			"per-example constant that is not the example's own argument "
			"term")
		return "C09/args-misreplicated", clean(det)
	return "C09/y_hat-wrong", clean(det)


# --------------------------------------------------------------------------
# attribution oracle (from the property statement / docstring)
# --------------------------------------------------------------------------

def attribution_oracle(y0, yhat, Xwin, target, hypothetical, variant=None):
	"""y0 (n, *out), yhat (n, A, W, *out), Xwin (n, A, W) one-hot."""
	d = yhat - y0[:, None, None]
	if variant == "no-centre":
		pass
	elif variant == "centre-positions":
		d = d - d.mean(axis=2, keepdims=True)
	else:
		d = d - d.mean(axis=1, keepdims=True)
	if d.ndim > 3:
		if target is not None:
			d = d[:, :, :, target]
		if d.ndim > 3:
			d = d.mean(axis=tuple(range(3, d.ndim)))
	if not hypothetical and variant != "no-mask":
		d = d * Xwin
	if hypothetical and variant == "masked":
		d = d * Xwin
	return d


def run_attr(cls, params, ctx, rec):
	from tangermeme.ism import saturation_mutagenesis
	start, end, b = params["start"], params["end"], params["batch_size"]
	stop = eff_end(end, ctx.L)
	target = parse_target(params.get("target"))
	hyp = bool(params.get("hypothetical", False))
	e = ctx.expected(start, stop)
	Xwin = (ctx.idx[:, None, start:stop] == numpy.arange(ctx.A)[None, :, None]
		).astype(numpy.float64)
	exp = attribution_oracle(e["y0"][0], e["yhat"][0], Xwin, target, hyp)
	model = ctx.model()
	st, val = gen.call(saturation_mutagenesis, model, ctx.X,
		args=ctx.args_tuple(params.get("args_list", False)), start=start,
		end=end, batch_size=b, target=target, hypothetical=hyp,
		raw_outputs=False, device="cpu")
	det = None
	if st == "raise":
		det = {"observed": "raise", "error": repr(val)[:300]}
	elif not isinstance(val, torch.Tensor):
		det = {"observed": "structure", "what": "attribution is a %s" %
			type(val).__name__}
	else:
		g = to_np(val)
		# exact integers in, 3-4 float64 roundings: 1e-12 relative to the
		# magnitude of the outputs is > 1000 x the rounding error and far
		# below any weight difference (>= 1 / (A*T*K))
		tol = 1e-12 * max(1.0, float(numpy.abs(e["yhat"][0]).max()))
		if g.shape != exp.shape:
			det = {"observed": "shape", "what": "attribution shape %s, "
				"expected (n, A, end-start) = %s" % (list(g.shape),
				list(exp.shape))}
		elif not (numpy.abs(g - exp) <= tol).all() or numpy.isnan(g).any():
			bad = numpy.argwhere(~(numpy.abs(g - exp) <= tol))
			i, c, pp = [int(v) for v in bad[0]]
			det = {"observed": "values", "example": i, "character": c,
				"position": pp + start, "got": float(g[i, c, pp]),
				"expected": float(exp[i, c, pp]), "tol": tol,
				"n_wrong_entries": int(len(bad)), "n_entries": int(exp.size),
				"sequence": [int(v) for v in ctx.idx[i]]}
			for variant in ("no-centre", "centre-positions", "no-mask",
				"masked"):
				alt = attribution_oracle(e["y0"][0], e["yhat"][0], Xwin,
					target, hyp, variant)
				if alt.shape == g.shape and (numpy.abs(g - alt) <= tol).all():
					det["matches_variant"] = variant
			for tname, t2 in (("None", None), ("0", 0)):
				if t2 == target or (t2 == 0 and not ctx.outs[0]):
					continue
				alt = attribution_oracle(e["y0"][0], e["yhat"][0], Xwin, t2,
					hyp)
				if alt.shape == g.shape and (numpy.abs(g - alt) <= tol).all():
					det["matches_target"] = tname
	if det is None:
		rec.count("attr_cases")
		rec.setadd("targets", str(params.get("target")))
		rec.held(cls, params, nontrivial=e["identifiable"])
		return
	# is the raw output already wrong?  then that is the mechanism
	mech, rdet = diagnose_raw(ctx, start, end, b, params.get("args_list",
		False))
	if mech is not None:
		rdet = dict(rdet)
		rdet["seen_through"] = "raw_outputs=False call: %s" % str(det)[:300]
		rec.violation(cls, params, rdet, mech=mech)
		return
	if not ctx.outs[0] and det["observed"] == "raise":
		# (n,) outputs: the docstring speaks of (batch, n_targets) outputs only
		rec.refusal(cls, params, "attribution of a model with (n,) output "
			"raised: " + det["error"][:80])
		return
	det["raw_outputs=True_call"] = "agrees with the oracle"
	if det["observed"] == "raise":
		rec.violation(cls, params, det, mech="C09/attribution-raises")
	else:
		rec.violation(cls, params, det, mech="C09/attribution-formula")


# --------------------------------------------------------------------------
# case / unit / plan
# --------------------------------------------------------------------------

def run_case(cls, params, rec):
	ctx = Ctx(params)
	A, L = ctx.A, ctx.L
	start, end, b = params["start"], params["end"], params["batch_size"]
	stop = eff_end(end, L)
	assert 0 <= start < stop <= L, params
	Wn = stop - start
	# same values, another memory layout (views of larger storages)
	params, ctx.X, xbase = gen.apply_layout(params, rec, ctx.X)
	bases = {"Xbase": xbase}
	ctx.args = list(ctx.args)
	for j in range(len(ctx.args)):
		_, ctx.args[j], bases["argbase%d" % j] = gen.apply_layout(params,
			rec, ctx.args[j], "arg", j)
	mon = gen.Immutable(X=ctx.X, **bases, **{"arg%d" % j: a for j, a in
		enumerate(ctx.args)})
	if start > 0 or stop < L:
		rec.count("proper_window_cases")
	if end < 0 and not (start == 0 and end == -1):
		rec.count("neg_end_cases")
	if ctx.n_args and ctx.n > 1:
		rec.count("args_cases")
	if ctx.container != "tensor":
		rec.count("multi_output_cases")
	if (A * Wn) % b != 0 and b < A * Wn:
		rec.count("batch_not_dividing")
	if b > A * Wn:
		rec.count("batch_exceeds_mutants")
	rec.maxv("L_max", L)
	rec.maxv("mutants_max", A * Wn)
	rec.setadd("output_structures", "%s%s" % (ctx.container, params["outs"]))
	e = ctx.expected(start, stop)
	if e["identifiable"]:
		rec.count("mutants_identifiable")
	else:
		rec.count("mutants_not_all_distinct")

	if params.get("mode", "raw") == "attr":
		run_attr(cls, params, ctx, rec)
	else:
		mech, det = diagnose_raw(ctx, start, end, b, params.get("args_list",
			False))
		if mech is None:
			rec.count("forward_calls", det["forward_calls"])
			rec.count("mutant_rows", det["rows"])
			rec.held(cls, params, nontrivial=e["identifiable"])
		else:
			rec.violation(cls, params, det, mech=mech,
				nontrivial=e["identifiable"])
	if mon.changed():
		# not part of C09's statement: cross-observation only
		rec.count("cross:caller-tensors-modified")
		rec.note("caller tensors modified: %s in %s" % (mon.changed(),
			gen_short(params)))


def gen_short(params):
	return {k: params[k] for k in ("A", "L", "start", "end", "container")}


def mk(A, L, start, end, kind, c, seed, **extra):
	"""Case parameters; the secondary dimensions cycle with the counter c."""
	container, outs = kind
	stop = eff_end(end, L)
	K = A * (stop - start)
	r = gen.pyrng(ID, "mk", seed, A, L, start, end, c)
	p = {"A": A, "L": L, "n": 1 + c % 3, "start": start, "end": end,
		"container": container, "outs": outs,
		"batch_size": r.choice([1, 2, 3, K - 1, K, K + 1, r.randint(1, K + 1),
			r.randint(1, K + 1), stop - start, A, 32]) or 1,
		"n_args": (c // 2) % 3, "xdtype": ("int8", "float32", "float64")[
			(c // 3) % 3], "with_param": c % 4 != 3, "args_list": c % 5 == 0,
		"seed": seed * 1000003 + c, "mode": "raw",
		"n_unknown": (1 + c % 2) if c % 4 == 1 else 0,
		"mixed_dtypes": c % 3 == 2}
	if p["n_args"] and c % 2:
		p["n"] = 2 + c % 3
	p.update(extra)
	return p


def targets_for(outs):
	"""All target forms for a single-tensor model with output shape outs[0]."""
	o = outs[0]
	if not o:
		return [None]
	T = o[0]
	t = [None] + list(range(T)) + [-1]
	t.append(["slice", 0, 1, None])
	if T > 1:
		t += [["slice", 1, None, None], ["slice", 0, T, None],
			["slice", None, None, 2], ["slice", -2, None, None]]
	return t


def windows(L):
	return [(s, e) for s in range(L) for e in range(s + 1, L + 1)]


def plan(tier, seed):
	units = []
	if tier == "quick":
		Lwin, Lattr, Lbatch, nrand, per = 7, 5, 3, 32, 12
	else:
		Lwin, Lattr, Lbatch, nrand, per = 30, 12, 5, 320, 40
	for A in (2, 3, 4, 5):
		for L in range(1, Lwin + 1):
			# L <= LALL: every window with every output structure; longer
			# sequences: every window with one single-tensor and one
			# multi-tensor structure (rotating), split into parts
			nk = len(KINDS) if L <= LALL else 2
			nparts = 1 if L <= LALL else 1 + L // 8
			w = (1 + A * L ** 3 / 20.0) * nk / nparts
			for part in range(nparts):
				for cls in ("win", "negend"):
					units.append({"cls": cls, "A": A, "L": L, "part": part,
						"nparts": nparts, "seed": seed, "weight": w})
		for L in range(1, Lattr + 1):
			units.append({"cls": "attr", "A": A, "L": L, "seed": seed,
				"weight": 1 + A * L ** 3 / 4.0})
		for L in range(1, Lbatch + 1):
			units.append({"cls": "batch", "A": A, "L": L, "seed": seed,
				"weight": 1 + (A * L) ** 2 * L / 10.0})
	units.append({"cls": "view", "seed": seed, "tier": tier, "weight": 20})
	for k in range(nrand):
		units.append({"cls": "rand", "k": k, "per": per, "seed": seed,
			"weight": 30 if tier == "quick" else 120})
	return units


def run_unit(unit, rec):
	cls, seed = unit["cls"], unit["seed"]
	if cls in ("win", "negend"):
		A, L = unit["A"], unit["L"]
		multi = [k for k in range(len(KINDS)) if KINDS[k][0] != "tensor"]
		single = [k for k in range(len(KINDS)) if KINDS[k][0] == "tensor"]
		for wi, (s, e) in enumerate(windows(L)):
			if wi % unit["nparts"] != unit["part"]:
				continue
			end = e if cls == "win" else e - L - 1
			ks = range(len(KINDS)) if L <= LALL else (single[wi % len(single)],
				multi[wi % len(multi)])
			for k in ks:
				run_case(cls, mk(A, L, s, end, KINDS[k], wi * 7 + k, seed), rec)
		rec.mark_exhaustive(cls)
	elif cls == "view":
		# models whose output aliases their input: every example's mutants
		# must still be its own, whatever is reused between examples
		c = 0
		for A in (2, 4, 5):
			for L in ((3, 6) if unit["tier"] == "quick" else (2, 3, 6, 9, 14)):
				for (s, e) in windows(L):
					K = A * (e - s)
					for b in (K, K + 3, max(1, K - 1), 1000, 2):
						for n in (2, 3):
							c += 1
							run_case(cls, mk(A, L, s, e, ("tensor", [[A * L]]),
								c, seed, batch_size=b, n=n, n_args=0,
								with_param=False, view_model=True,
								n_unknown=0, mixed_dtypes=False,
								layout="plain", xdtype=("int8", "float32",
								"float64")[c % 3]), rec)
							rec.count("view_model_cases")
	elif cls == "batch":
		A, L = unit["A"], unit["L"]
		c = 0
		for (s, e) in windows(L):
			for b in range(1, A * (e - s) + 2):
				for kind in (KINDS[0], KINDS[1], KINDS[3]):
					c += 1
					end = e if c % 4 else e - L - 1
					run_case(cls, mk(A, L, s, end, kind, c, seed,
						batch_size=b), rec)
		rec.mark_exhaustive(cls)
	elif cls == "attr":
		A, L = unit["A"], unit["L"]
		c = 0
		for (s, e) in windows(L):
			for kind in TENSOR_KINDS:
				for t in targets_for(kind[1]):
					for hyp in (False, True):
						c += 1
						# negative ends as well (every 3rd case)
						end = e if c % 3 else e - L - 1
						run_case(cls, mk(A, L, s, end, kind, c, seed,
							mode="attr", target=t, hypothetical=hyp), rec)
		rec.mark_exhaustive(cls)
	else:
		r = gen.pyrng(ID, "rand", seed, unit["k"])
		for j in range(unit["per"]):
			A = r.randint(2, 5)
			L = r.choice([r.randint(1, 30), r.randint(8, 30), 30, 29])
			s = r.choice([0, 0, r.randint(0, L - 1), L - 1])
			e = r.choice([L, L, r.randint(s + 1, L), s + 1])
			end = e if r.random() < 0.6 else e - L - 1
			c = unit["k"] * 1000 + j
			if r.random() < 0.4:
				kind = r.choice(TENSOR_KINDS)
				t = r.choice(targets_for(kind[1]))
				run_case("rand-attr", mk(A, L, s, end, kind, c, seed,
					mode="attr", target=t, hypothetical=r.random() < 0.5,
					n=r.randint(1, 4)), rec)
			else:
				run_case("rand-raw", mk(A, L, s, end, r.choice(KINDS), c, seed,
					n=r.randint(1, 4)), rec)
