#!/venv/bin/python
"""Regenerates /verif/MANIFEST.json from the property modules that exist
(vf/props/cNN.py) and validates it against the schema.  Properties without a
module are listed under not_applicable with the reason given in NOT_APPLICABLE
below (or 'check not built yet')."""

import importlib
import json
import os
import subprocess
import sys

HERE = os.path.dirname(os.path.dirname(os.path.abspath(__file__)))
sys.path.insert(0, HERE)

ENGINES = {
	"api-oracle": ("vf/props", "reference-model oracles at the API boundary "
		"over enumerated and seeded workloads; immutability monitor"),
	"dls-monitor": ("vf/props", "DeepLIFT/SHAP monitors: completeness, "
		"independent rescale-rule reference, batching differential"),
	"failpoints": ("vf/monitors.py", "fault enumeration: event failpoints and "
		"sys.monitoring line failpoints with a model audit after every "
		"return or raise; call histories on a shared model"),
	"numba-kernels": ("vf/props", "numba kernels under bounds checking, "
		"poison/red-zone differentials, thread-schedule differentials and "
		"per-thread trace hooks"),
}
ENGINE_OF = {}
for p in ("C01 C02 C03 C08 C09 C10 C15 C16 C17 C18 C19 C20").split():
	ENGINE_OF[p] = "api-oracle"
for p in ("C04 C05 C06").split():
	ENGINE_OF[p] = "dls-monitor"
ENGINE_OF["C07"] = "failpoints"
for p in ("C11 C12 C13 C14").split():
	ENGINE_OF[p] = "numba-kernels"

NOT_APPLICABLE = {}

LEVEL_TEXTS = {
 "C01": "Every sequence up to length 4 (quick) / 5 (thorough) over alphabets 2..6, every motif up to length 3, every start in [-3, L+3] and every (start, end) pair is executed through the real edit primitives in all motif forms, plus seeded long batches; a string-level oracle and a byte-level immutability monitor judge each return value or exception. Exhaustive on the small scope, sampled beyond it.",
 "C02": "Compiled shuffles on every sequence/region of the small scope and on random and very long regions (composition, flanks, one-hot, immutability, repeat-call determinism incl. numpy seeds and interleaved unrelated calls), and the dinucleotide walk executed for EVERY assignment of its internal permutations through an enumerating permutation source, with the kernel's own transition counters inspected after each walk.",
 "C03": "A recording exact-arithmetic model logs which example and argument rows, training flags and grad mode every forward invocation sees; all (n, batch_size, #args, output kind) combinations up to n=16/40 are enumerated and the event log plus the returned value (values and dtypes) are checked against a per-example loop; BatchNorm/Dropout models in train, eval and mixed start states.",
 "C04": "Generated sequential architectures (16 activations, max-pooling incl. overlapping/dilated/ceil and two pooling layers, integer/large/float weights, one-hot and non-one-hot references, call histories with overridden rules) are run through deep_lift_shap; raw and processed completeness are judged per example-reference pair against plain forward passes and the warnings module is monitored.",
 "C05": "Multipliers, hypothetical and observed attributions are compared element-wise with an independent layer-by-layer rescale-rule evaluation (separate forwards of example and reference, single-layer VJPs, secant ratios), affine models also in closed form with re-randomised biases; includes call histories on the same model object (float32 then float64, prior rule overrides).",
 "C06": "Differential monitor: for each generated model all batch sizes 1..n*n_shuffles+1, random subsets, permutations, duplications and repeated calls are compared with the single-batch baseline (attributions 1e-10, references and repeats bit-for-bit), with extra per-example args, scale-outlier examples and an interleaved rule-override call.",
 "C08": "Index-carrying exact-integer models, a capturing func and (thorough) deep_lift_shap / saturation_mutagenesis as func; every entry of every wrapper output is compared with func applied to the explicitly constructed input that the index denotes, over all output kinds x annotation counts x shuffles x spacing grids x product sizes x batch sizes, plus seed call histories.",
 "C09": "Exact-integer position-sensitive models (tensor/tuple/list outputs, trailing dims, mixed dtypes, per-example args, unknown positions); all windows incl. negative ends and all batch sizes on the small scope are executed and y0 / y_hat / attributions compared with explicit per-mutant forward passes and the documented formula.",
 "C10": "A capturing func observes the tensors that reach func; every subset of <=3 deleted positions per example (both trim sides), insertions at every coordinate and substitution lists incl. repeated and conflicting rows are enumerated on small batches and judged against string-level editing; variant lists that cannot be honoured must raise.",
 "C11": "Every entry of the p-value tables returned by the serial kernel (also under NUMBA_BOUNDSCHECK) and by the parallel driver is compared with the exact tail probability from an integer-count dynamic programme (cross-checked by enumerating all 4^w sequences for w<=7), widths 1-30; plus a fimo()-level call history checking every hit's p-value.",
 "C12": "fimo() results for tensor and FASTA input, dim 0/1, return_counts, 1-16 threads, omp/workqueue, are compared window by window with a pure-Python scanner using exact tail tables; mirror property; call histories on the same motifs; the kernel additionally in numpy-bounds-checked py-mode and in a red-zone differential.",
 "C13": "Bitwise differential of every query's result against the query processed alone on one thread, across thread counts, chunk sizes, threading layers, permutations, subsets, duplications; an in-kernel guarded trace hook records per-thread histories and a poison hook fills the thread's scratch before every query (results must not depend on the fill); n_nearest rows checked against the full row and against the alone run; drivers also under NUMBA_BOUNDSCHECK.",
 "C14": "Every query/target pair of generated tomtom() calls is compared with an independent complete-score reference (alignment enumeration, convolution null distributions, strand merge) fed with the integerised matrix obtained from the implementation's own kernel under bounds checking; the matrix is monitored for range, histogram consistency and monotonicity in the exact distance; self-match, rc-swap, hashing, corner and call-history variants.",
 "C15": "All strings up to length 6 over many alphabets/ignore sets, illegal characters at every position, all dtypes, reverse complement exhaustively to length 6, and chunk/unchunk over all sizes x overlaps x chunk counts with position-coded values are executed and compared with harness-owned encoders and slicing; numba encoder also under bounds checking.",
 "C16": "extract_loci on synthetic FASTA/bigwig files and in-memory arrays (edges, parities, jitter, multiple locus sets, filters, gapped signals) judged against direct slicing of the generated genome/signal with an independent keep/omit list; read_meme on an enumerated grid of file layouts with changing content at one path.",
 "C17": "extract_matching_loci on synthetic genomes with GC-controlled tiles, N stretches and bigwig signal; every returned row and every GC bin is judged against relations recomputed from the generated data (validity, disjointness, N and signal filters, bin fill bounds, exhaustion), with repetition, n_jobs 1-4 and prior calls on the same files.",
 "C18": "count/pairwise/spacing annotation counts and k-mer counts are compared cell by cell with brute-force enumeration on small enumerated tables, boundary-gap tables (0, max-1, max, max+1, overlapping, nested, coinciding, empty spans) and all sequences up to length 6 for k 1-4, across all accepted input forms and dtypes.",
 "C19": "Every seqlet row returned by recursive_seqlets / tfmodisco_seqlets on generated tracks with planted edge bumps is re-derived from the input (span, core length, fsum attribution, p-value bound, ordering, suppression radius, immutability); the recursive kernel also under bounds checking.",
 "C20": "greedy_substitution on exact-integer models: the trace of applied substitutions is observed by wrapping design.substitute and every accepted step is checked against a brute-force minimum over all motifs x fitting positions with exact rational losses; stopping rule, max_iter, masks, ties and tol boundaries are covered.",
}


TECHNIQUES = {'C01': 'runtime monitoring: string-level reference model and byte-snapshot immutability monitor (incl. surrounding storage) on every observed call of the edit primitives over an exhaustively enumerated small scope and seeded batches',
 'C02': "runtime monitoring: composition / flank / one-hot invariants and seed-determinism differentials on every observed shuffle; replay-based exhaustive exploration of the dinucleotide walk's random choices with the kernel's transition counters hooked", 'C03': 'runtime monitoring: a recording model logs every forward event (example rows, argument rows, training and grad mode); the event log and the returned value are checked offline against a per-example loop',
 'C08': 'runtime monitoring: index-carrying exact-integer models and a capturing func observe the tensors that reach func; every output entry is compared with func on the explicitly constructed input its index denotes; call histories and injected func failures',
 'C09': 'runtime monitoring: exact-integer position-sensitive models; y0 / y_hat / attributions of every observed call compared with explicit per-mutant forward passes and the documented formula',
 'C10': 'runtime monitoring: capturing func records the tensors handed to func; compared with string-level editing over exhaustively enumerated variant lists; must-raise classes for lists that cannot be honoured',
 'C15': 'runtime monitoring: harness-owned encoder / decoder / slicing reference on every observed conversion over exhaustively enumerated strings, complement maps and chunk grids; numba encoder under bounds checking; call histories',
 'C16': 'runtime monitoring: every row returned by extract_loci / read_meme is compared with direct slicing of the generated genome, signals and MEME layouts, with an independent keep/omit list',
 'C17': 'runtime monitoring: every returned locus and every GC bin is judged against relations recomputed from the generated genome, signal and input loci; repetition, n_jobs and prior-call differentials',
 'C18': 'runtime monitoring: brute-force enumeration oracle for every cell of the count, pairwise, spacing and k-mer tables over enumerated small tables and seeded large ones in all accepted input forms',
 'C19': 'runtime monitoring: every returned seqlet row is re-derived from the input track (span, length, fsum attribution, p-value bound, order, suppression distance); recursive kernel under bounds checking; immutability monitor',
 'C20': 'runtime monitoring: the trace of applied substitutions is observed by wrapping design.substitute; every accepted step is compared with a brute-force minimum over all motifs and positions using exact rational losses'}


LAYOUT_CHECKS = set("C01 C02 C03 C04 C05 C06 C08 C09 C10 C12 C15 C18 C19 "
	"C20".split())


def main():
	props = [json.loads(l) for l in open(os.path.join(HERE,
		"properties.jsonl"))]
	checks, na = [], []
	for p in props:
		pid = p["id"]
		path = os.path.join(HERE, "vf", "props", pid.lower() + ".py")
		if not os.path.exists(path) or pid in NOT_APPLICABLE:
			na.append({"property_id": pid, "reason": NOT_APPLICABLE.get(pid,
				"check not built yet (runtime monitor planned in DESIGN.md "
				"section 3)")})
			continue
		mod = importlib.import_module("vf.props." + pid.lower())
		checks.append({
			"property_id": pid,
			"quick_cmd": "./check %s quick" % pid,
			"thorough_cmd": "./check %s thorough" % pid,
			"evidence_file": "evidence/%s.json" % pid,
			"replay_cmd_template": "./check %s quick --replay {path}" % pid,
			"engine": ENGINE_OF[pid],
			"level_claimed": {
				"category": mod.LEVEL,
				"text": (getattr(mod, "LEVEL_TEXT", None) or LEVEL_TEXTS.get(pid)
					or "The real functions are executed on enumerated small "
					"scopes and seeded hostile workloads while an oracle "
					"independent of the implementation judges every observed "
					"return value / exception.") + (" Caller tensors are "
					"handed over in several memory layouts (contiguous, "
					"transposed storage, offset and strided views)." if pid
					in LAYOUT_CHECKS else "") + " Every fifth unit of the "
					"plan is repeated in a process whose torch default dtype "
					"is float64, every seventh under each of two glibc "
					"MALLOC_PERTURB_ fill patterns (reads of uninitialised or "
					"out-of-bounds heap memory change the result). Verdict: "
					"held on the "
					"executions observed (counts in the evidence file), "
					"violated with a replay file, or inconclusive when a "
					"required monitor saw too little.",
				"design_ref": "DESIGN.md section 3, " + pid,
			},
			"level_note": getattr(mod, "LEVEL_NOTE", "Trusted: the harness "
				"oracle (independent reference code under vf/), torch/numpy "
				"arithmetic, and that the generated workload classes are "
				"representative; nothing is claimed about inputs or schedules "
				"that were not executed."),
			"technique": getattr(mod, "TECHNIQUE", None) or TECHNIQUES.get(pid,
				"runtime monitoring: "
				"reference-model oracle at the API boundary over enumerated + "
				"seeded workloads"),
		})
	hooks_commits = []
	hp = os.path.join(HERE, "hooks_commits.txt")
	if os.path.exists(hp):
		hooks_commits = [l.split()[0] for l in open(hp) if l.strip()]
	man = {
		"version": 1,
		"setup_cmd": "mkdir -p .work evidence replays",
		"hooks": {
			"guard": "TANGERMEME_VERIF",
			"enable": "environment variable TANGERMEME_VERIF=1, exported by "
				"./check before the package is imported (the hooks are "
				"module-level constants read at import; off = dead branches)",
			"baseline_off_cmd": "cd /repo && env -u TANGERMEME_VERIF "
				"/venv/bin/python -m pytest -ra -q -p no:cacheprovider "
				"--timeout=900 --continue-on-collection-errors",
			"source_commits": hooks_commits,
			"add_only": True,
		},
		"engines": [{"name": k, "path": v[0], "kind_free_text": v[1],
			"serves_properties": sorted(p for p, e in ENGINE_OF.items()
				if e == k and any(c["property_id"] == p for c in checks))}
			for k, v in ENGINES.items()],
		"checks": checks,
		"not_applicable": na,
		"notes": "All checks are runtime monitors of the real code (see "
			"DESIGN.md).  ./check <ID> <tier> honours VERIF_SEED and "
			"VERIF_REPO (tree to test, default /repo).  Exit 2 + a line "
			"'INCONCLUSIVE property=<id> ...' means a required monitor "
			"observed nothing.",
	}
	out = os.path.join(HERE, "MANIFEST.json")
	with open(out, "w") as fh:
		json.dump(man, fh, indent=1)
	r = subprocess.run(["python3-vt", "-c", "import json,jsonschema;"
		"jsonschema.validate(json.load(open('%s')),json.load(open("
		"'/root/.vp/MANIFEST.schema.json')));print('MANIFEST valid: %d checks, "
		"%d not_applicable')" % (out, len(checks), len(na))])
	return r.returncode


if __name__ == "__main__":
	sys.exit(main())
