"""C19  Called seqlets are well-formed spans whose reported statistics match
the input (seqlet.recursive_seqlets, seqlet.tfmodisco_seqlets).

Monitor: the API boundary.  Every call of a seqlet caller on a generated
attribution track is one case; every row of the returned table is judged
against the *input track* by an oracle written here (plain Python, math.fsum):

  recursive_seqlets   valid example index; 0 <= start < end <= L; core length
                      (span minus the flanks that can actually have been
                      added, flanks being clipped at the sequence ends) within
                      [min_seqlet_len, max_seqlet_len]; attribution ==
                      fsum(X[i, start:end]); p <= threshold; rows in ascending
                      p order.
  tfmodisco_seqlets   valid example index; span inside [0, L]; end - start ==
                      window_size + 2*flank; attribution == fsum over the
                      central window [start+flank, start+flank+window_size);
                      starts of one example at least int(window_size/2)+flank
                      (the suppression radius of the source) apart.
  both                byte snapshot of the caller's array/tensor unchanged.

The compiled kernel _recursive_seqlets is additionally called directly in
worker processes started with NUMBA_BOUNDSCHECK=1 (an IndexError there is an
out-of-bounds access that is silent in production).

Conventions verified by reading tangermeme/seqlet.py (not used by the oracle,
only to choose a workload on which rows appear):
  * _recursive_seqlets builds its cumulative sums with numpy.empty_like(X),
    i.e. IN THE DTYPE OF THE INPUT (float32 input -> float32 sums).
  * a call of length j at start k is reported as [k, k+j-1) (+flanks), j from
    max down to min+1, k >= 1: reported core lengths lie in [min, max-1],
    start 0 and end L only appear through additional_flanks (end = L needs
    additional_flanks >= 2).  The oracle only demands [min, max].
  * tfmodisco_seqlets: window start a is restricted to [flank, L-window-flank],
    span = [a-flank, a+window+flank), attribution = X[a:a+window].sum(),
    suppression sets window starts a-s..a+s to -inf, s = int(0.5*window)+flank.
"""

import math

import numpy
import torch

from .. import gen

ID = "C19"
LEVEL = "exploration"
RULE = ("one case = one call of recursive_seqlets / tfmodisco_seqlets / the "
	"compiled _recursive_seqlets kernel on a generated batch of attribution "
	"tracks (1-6 examples, length 40-600, Gaussian or integer noise plus 0-10 "
	"planted positive/negative bumps with distinct per-position heights, "
	"including bumps at positions 0, 1, L-w-1, L-w and, for the TF-MoDISco "
	"caller, at the first/last admissible window) with a drawn configuration "
	"(threshold 0.001-0.2 log-uniform, min/max length 3-30, additional_flanks "
	"0-5; window 5-21, flank 0-10).  Every returned row is judged against the "
	"input.  Non-trivial = the call returned at least one seqlet row (a call "
	"that returns an empty table checks nothing but immutability); distinct "
	"= distinct (generator tags, configuration) tuples.  Row counters "
	"(rows, rows with start 0, rows ending at L, float32 rows, clipped "
	"flanks) are measured and REQUIRED.")
ASSUMPTIONS = [
	"only returned tables are judged: a caller that raises (ZeroDivisionError "
	"when a length has no positive or no negative window, torch.quantile on "
	"float64 or empty tensors, sklearn on degenerate weights, ...) is a "
	"refusal; an IndexError under NUMBA_BOUNDSCHECK=1 is a violation",
	"attribution tolerance = (L+1) * eps(dtype of the track) * sum|x| of the "
	"example: rigorous worst case for a difference of two sequential prefix "
	"sums computed in the track's dtype (the implementation's method); any "
	"other summation order is more accurate",
	"core length with flanks: accepted iff SOME amount of clipping "
	"consistent with the reported start/end gives a core in [min, max] "
	"(start > 0 => the full left flank was added; start == 0 => 0..flanks)",
	"suppression radius = int(window_size/2) + flank as in the source; only "
	"distance >= radius is demanded (the source guarantees > radius)",
	"tracks contain both signs (noise) so that both null distributions of "
	"the recursive caller exist; device cpu; C-contiguous inputs",
	"one violation record per call: the mechanism reported is the first in "
	"a fixed priority order in which the known start-0 wrap comes last, so "
	"it can never mask another mechanism; the others are listed in detail",
]
REQUIRED = {
	"recursive_rows": 300,
	"recursive_rows_start0": 20,
	"recursive_rows_endL": 20,
	"recursive_rows_float32": 50,
	"recursive_rows_interior_with_flanks": 50,
	"recursive_calls_with_rows": 100,
	"tfmodisco_rows": 300,
	"tfmodisco_rows_start0": 10,
	"tfmodisco_rows_endL": 10,
	"tfmodisco_same_example_pairs": 100,
	"boundscheck_calls_returned": 20,
	"boundscheck_rows": 50,
}
TIMEOUT = {"quick": 900, "thorough": 5400}

REC_COLS = ("example_idx", "start", "end", "attribution", "p-value")
TFM_COLS = ("example_idx", "start", "end", "attribution")

# reporting priority (see ASSUMPTIONS): the known wrap last
PRIORITY = [
	"C19/out-of-bounds-access",
	"C19/input-mutated",
	"C19/invalid-example-index",
	"C19/span-outside-track",
	"C19/core-length-out-of-range",
	"C19/p-above-threshold",
	"C19/not-sorted-by-p",
	"C19/tfmodisco-span-outside-track",
	"C19/tfmodisco-span-length",
	"C19/tfmodisco-suppression-radius",
	"C19/tfmodisco-attribution",
	"C19/attribution-wrong",
	"C19/attribution-wrap-at-start-0",
]


# ---------------------------------------------------------------------------
# inputs

def make_input(params):
	"""-> (object handed to the caller, float64 numpy copy for the oracle).
	Completely determined by params (noise tags, bumps, dtype, container)."""
	n, L = params["n"], params["L"]
	if "track" in params:
		# hand-made case: the track is given explicitly
		X = numpy.array(params["track"], dtype=numpy.float64).reshape(n, L)
		return _finish_input(params, X)
	r = gen.nprng(*params["noise"])
	if params.get("integer"):
		# integer-valued tracks: every partial sum is exact in float32 and
		# float64, so witnesses can be checked by hand without rounding
		X = r.integers(-3, 4, size=(n, L)).astype(numpy.float64)
	else:
		X = r.normal(0.0, params.get("sigma", 1.0), size=(n, L))
	for ex, pos, w, h in params["bumps"]:
		w = min(w, L - pos)
		if params.get("integer"):
			shape = float(h) + numpy.sign(h) * r.integers(0, 4, size=w)
		else:
			# distinct height at every position of the bump, so that an
			# off-by-one span changes the sum visibly
			# (heights are given in units of the noise sigma)
			shape = h * params.get("sigma", 1.0) * (0.6 + 0.8 * r.random(w))
		X[ex, pos:pos + w] += shape
	return _finish_input(params, X)


def _finish_input(params, X):
	dt = {"float32": numpy.float32, "float64": numpy.float64}[params["dtype"]]
	Xd = numpy.ascontiguousarray(X.astype(dt))
	X64 = Xd.astype(numpy.float64)          # exact for float32
	if params.get("container", "numpy") == "torch":
		return torch.from_numpy(Xd), X64
	return Xd, X64


def dtype_eps(name):
	return float(numpy.finfo({"float32": numpy.float32,
		"float64": numpy.float64}[name]).eps)


class Track:
	"""Oracle view of the input: python floats, fsum-based statistics."""

	def __init__(self, X64):
		self.rows = [list(map(float, r)) for r in X64.tolist()]
		self.n = len(self.rows)
		self.L = len(self.rows[0])
		self.total = [math.fsum(r) for r in self.rows]
		self.sumabs = [math.fsum(abs(v) for v in r) for r in self.rows]

	def span(self, i, s, e):
		return math.fsum(self.rows[i][s:e])


def as_int(v):
	"""integer value of a table cell, or None if it is not integral."""
	try:
		if isinstance(v, bool):
			return None
		f = float(v)
		if f != f or f in (float("inf"), float("-inf")) or f != int(f):
			return None
		return int(f)
	except (TypeError, ValueError, OverflowError):
		return None


def as_float(v):
	try:
		return float(v)
	except (TypeError, ValueError):
		return float("nan")


# ---------------------------------------------------------------------------
# oracles

def judge_recursive(rows, tr, cfg, eps, check_sorted, rec, f32):
	"""rows: list of (example_idx, start, end, attribution, p).  -> dict
	mechanism -> first witness.  Counts what was judged."""
	thr, mn, mx, af = cfg["threshold"], cfg["min"], cfg["max"], cfg["flanks"]
	L, n = tr.L, tr.n
	found = {}

	def add(mech, wit):
		found.setdefault(mech, wit)
		rec.count("rows_violating:" + mech)

	prev_p = None
	for ridx, row in enumerate(rows):
		i, s, e = as_int(row[0]), as_int(row[1]), as_int(row[2])
		attr, p = as_float(row[3]), as_float(row[4])
		base = {"row": ridx, "example_idx": row[0], "start": row[1],
			"end": row[2], "attribution": attr, "p": p, "L": L}
		rec.count("recursive_rows")
		if f32:
			rec.count("recursive_rows_float32")
		# sorted by ascending p (whole table, independent of row validity)
		if check_sorted:
			if prev_p is not None and p < prev_p:
				add("C19/not-sorted-by-p", dict(base, what="p-value %r follows "
					"larger p-value %r" % (p, prev_p)))
			prev_p = p
		# p <= threshold (exact: both are float64 and the statement is <=)
		if not (p <= thr):
			add("C19/p-above-threshold", dict(base, threshold=thr,
				what="reported p-value above the threshold"))
		rec.minv("recursive_min_p", p if p == p else 0.0)
		if i is None or not (0 <= i < n):
			add("C19/invalid-example-index", dict(base, n_examples=n,
				what="example index is not an integer in [0, n)"))
			continue
		if s is None or e is None or not (0 <= s < e <= L):
			add("C19/span-outside-track", dict(base,
				what="span is not 0 <= start < end <= L"))
			continue
		# core length before the additional flanks.  start = max(s0-af, 0):
		# start > 0 => exactly af were added on the left, start == 0 => any
		# amount 0..af; same on the right with end == L.
		lo_l = af if s > 0 else 0
		lo_r = af if e < L else 0
		core_hi = (e - s) - lo_l - lo_r
		core_lo = (e - s) - 2 * af
		if core_hi < mn or core_lo > mx:
			add("C19/core-length-out-of-range", dict(base, min_seqlet_len=mn,
				max_seqlet_len=mx, additional_flanks=af,
				possible_core_lengths=[core_lo, core_hi],
				what="no clipping of the flanks gives a core length in "
				"[min, max]"))
		else:
			if core_lo == core_hi:
				rec.setadd("recursive_core_minus_min", core_hi - mn)
				rec.setadd("recursive_max_minus_core", mx - core_hi)
		if s == 0:
			rec.count("recursive_rows_start0")
		if e == L:
			rec.count("recursive_rows_endL")
		if af > 0 and s > 0 and e < L:
			rec.count("recursive_rows_interior_with_flanks")
		if af > 0 and (s == 0 or e == L):
			rec.count("recursive_rows_flank_possibly_clipped")
		# attribution == sum of the input over [start, end).
		# Tolerance: the implementation subtracts two prefix sums accumulated
		# sequentially in the track's dtype; |error of a prefix sum of t
		# terms| <= (t-1) u sum|x| (Higham, Accuracy and Stability, eq. 4.4,
		# u = eps/2), so the difference is off by at most 2 (L-1) u sum|x| +
		# u |result| <= L eps sum|x|; (L+1) eps sum|x| also covers the
		# rounding of the returned value to the dtype.  For float64, L=600,
		# sum|x|~500 this is 7e-11; for float32 0.04 - both far below the
		# size of one track element (~1), which is what any indexing error
		# changes the sum by.
		true = tr.span(i, s, e)
		tol = (L + 1) * eps * tr.sumabs[i]
		err = abs(attr - true)
		if err <= tol:
			if tol > 0:
				rec.maxv("recursive_max_err_over_tol_on_held_rows", err / tol)
		else:
			wit = dict(base, expected=true, abs_error=err, tolerance=tol,
				track_total=tr.total[i],
				span_values=tr.rows[i][s:e] if e - s <= 48 else None)
			wrapped = true - tr.total[i]
			if s == 0 and abs(attr - wrapped) <= tol:
				wit["what"] = ("start is 0 and the reported attribution "
					"equals sum(X[i, 0:end]) - sum(X[i, :]) = %r: the "
					"cumulative-sum lookup at start-1 = -1 wrapped to the "
					"last cumulative sum" % wrapped)
				add("C19/attribution-wrap-at-start-0", wit)
			else:
				wit["what"] = ("reported attribution differs from the sum of "
					"the input over [start, end)")
				add("C19/attribution-wrong", wit)
	return found


def judge_tfmodisco(rows, tr, cfg, eps, rec):
	w, fl = cfg["window"], cfg["flank"]
	radius = int(w / 2) + fl
	L, n = tr.L, tr.n
	found = {}

	def add(mech, wit):
		found.setdefault(mech, wit)
		rec.count("rows_violating:" + mech)

	starts = {}
	for ridx, row in enumerate(rows):
		i, s, e = as_int(row[0]), as_int(row[1]), as_int(row[2])
		attr = as_float(row[3])
		base = {"row": ridx, "example_idx": row[0], "start": row[1],
			"end": row[2], "attribution": attr, "L": L, "window_size": w,
			"flank": fl}
		rec.count("tfmodisco_rows")
		if i is None or not (0 <= i < n):
			add("C19/invalid-example-index", dict(base, n_examples=n,
				what="tfmodisco_seqlets: example index is not an integer in "
				"[0, n)"))
			continue
		if s is None or e is None:
			add("C19/tfmodisco-span-outside-track", dict(base,
				what="start/end are not integers"))
			continue
		starts.setdefault(i, []).append((s, ridx))
		ok = True
		if not (0 <= s and e <= L):
			add("C19/tfmodisco-span-outside-track", dict(base,
				what="span is not inside [0, L]"))
			ok = False
		if e - s != w + 2 * fl:
			add("C19/tfmodisco-span-length", dict(base,
				expected_length=w + 2 * fl,
				what="span length is not window_size + 2*flank"))
			ok = False
		if not ok:
			continue          # the central window is not defined
		if s == 0:
			rec.count("tfmodisco_rows_start0")
		if e == L:
			rec.count("tfmodisco_rows_endL")
		a = s + fl
		true = tr.span(i, a, a + w)
		# float32 track (float64 is refused by torch.quantile).  Same bound
		# as for the recursive caller: (L+1) eps sum|x| covers a direct
		# float32 sum of <= 21 terms in any order ((w-1) u sum|x|) as well as
		# a prefix-sum based implementation.
		tol = (L + 1) * eps * tr.sumabs[i]
		err = abs(attr - true)
		if err <= tol:
			if tol > 0:
				rec.maxv("tfmodisco_max_err_over_tol_on_held_rows", err / tol)
		else:
			add("C19/tfmodisco-attribution", dict(base, expected=true,
				central_window=[a, a + w], abs_error=err, tolerance=tol,
				window_values=tr.rows[i][a:a + w],
				what="reported attribution differs from the input sum over "
				"the central window"))
	for i, lst in starts.items():
		lst.sort()
		for (s1, r1), (s2, r2) in zip(lst[:-1], lst[1:]):
			rec.count("tfmodisco_same_example_pairs")
			rec.minv("tfmodisco_min_(distance_minus_radius)", s2 - s1 - radius)
			if s2 - s1 < radius:
				add("C19/tfmodisco-suppression-radius", {"example_idx": i,
					"rows": [r1, r2], "starts": [s1, s2],
					"suppression_radius": radius, "window_size": w,
					"flank": fl, "what": "two seqlets of one example start "
					"closer than int(window_size/2)+flank"})
	return found


def table_rows(df, cols):
	"""-> list of row tuples, or None when the object is not the documented
	table (the oracle then cannot locate the fields)."""
	try:
		import pandas
		if not isinstance(df, pandas.DataFrame):
			return None
		if any(c not in df.columns for c in cols):
			return None
		lists = [df[c].tolist() for c in cols]
		return list(zip(*lists))
	except Exception:
		return None


def report(cls, params, rec, found, n_rows, extra=None):
	if not found:
		rec.held(cls, params, nontrivial=n_rows > 0)
		return
	mech = min(found, key=lambda m: PRIORITY.index(m) if m in PRIORITY
		else -1)
	detail = dict(found[mech])
	detail["rows_returned"] = n_rows
	detail["all_mechanisms_in_this_call"] = sorted(found)
	detail["reproduce"] = ("from vf.props.c19 import make_input; X = "
		"make_input(params)[0]; then call the function named in params['fn'] "
		"with the configuration in params")
	if extra:
		detail.update(extra)
	rec.violation(cls, params, detail, mech=mech)


def small_track(params, X64):
	if X64.size <= 240:
		return {"track": X64.tolist()}
	return None


# ---------------------------------------------------------------------------
# cases

def run_case(cls, params, rec):
	fn = params["fn"]
	X, X64 = make_input(params)
	xbase = None
	if isinstance(X, torch.Tensor):
		# same values as a view into a larger storage
		params, X, xbase = gen.apply_layout(params, rec, X)
	tr = Track(X64)
	eps = dtype_eps(params["dtype"])
	mon = gen.Immutable(X=X, Xbase=xbase)
	f32 = params["dtype"] == "float32"

	if fn in ("recursive_seqlets", "_recursive_seqlets"):
		from tangermeme import seqlet
		cfg = {k: params[k] for k in ("threshold", "min", "max", "flanks")}
		if fn == "recursive_seqlets":
			st, val = gen.call(seqlet.recursive_seqlets, X,
				threshold=cfg["threshold"], min_seqlet_len=cfg["min"],
				max_seqlet_len=cfg["max"], additional_flanks=cfg["flanks"])
		else:
			import numba
			if not numba.config.BOUNDSCHECK:
				rec.inconclusive(cls, params, "NUMBA_BOUNDSCHECK not active "
					"in this worker")
				return
			rec.count("boundscheck_calls")
			st, val = gen.call(seqlet._recursive_seqlets, X, cfg["threshold"],
				cfg["min"], cfg["max"], cfg["flanks"])
		found = {}
		if mon.changed():
			found["C19/input-mutated"] = {"what": "%s changed the bytes of "
				"the attribution array it was given" % fn}
		if st == "raise":
			if isinstance(val, IndexError) and fn == "_recursive_seqlets":
				found["C19/out-of-bounds-access"] = {"what": "IndexError "
					"under NUMBA_BOUNDSCHECK=1", "error": repr(val)[:300]}
			if found:
				report(cls, params, rec, found, 0, small_track(params, X64))
			else:
				rec.refusal(cls, params, type(val).__name__ + ": "
					+ str(val)[:80])
			return
		if fn == "recursive_seqlets":
			rows = table_rows(val, REC_COLS)
		else:
			try:
				rows = [tuple(t) for t in val]
				if any(len(t) != 5 for t in rows):
					rows = None
			except TypeError:
				rows = None
		if rows is None:
			rec.inconclusive(cls, params, "return value is not the documented "
				"table")
			return
		found.update(judge_recursive(rows, tr, cfg, eps,
			check_sorted=(fn == "recursive_seqlets"), rec=rec, f32=f32))
		if rows:
			rec.count("recursive_calls_with_rows")
		if fn == "_recursive_seqlets":
			rec.count("boundscheck_calls_returned")
			rec.count("boundscheck_rows", len(rows))
		rec.maxv("recursive_max_rows_in_one_call", len(rows))
		report(cls, params, rec, found, len(rows), small_track(params, X64))
		return

	if fn == "tfmodisco_seqlets":
		from tangermeme import seqlet
		cfg = {"window": params["window"], "flank": params["flank"]}
		kw = {}
		if params.get("target_fdr") is not None:
			kw["target_fdr"] = params["target_fdr"]
		st, val = gen.call(seqlet.tfmodisco_seqlets, X,
			window_size=cfg["window"], flank=cfg["flank"], **kw)
		found = {}
		if mon.changed():
			found["C19/input-mutated"] = {"what": "tfmodisco_seqlets changed "
				"the bytes of the attribution tensor it was given"}
		if st == "raise":
			if found:
				report(cls, params, rec, found, 0)
			else:
				rec.refusal(cls, params, type(val).__name__ + ": "
					+ str(val)[:80])
			return
		rows = table_rows(val, TFM_COLS)
		if rows is None:
			rec.inconclusive(cls, params, "return value is not the documented "
				"table")
			return
		found.update(judge_tfmodisco(rows, tr, cfg, eps, rec))
		if rows:
			rec.count("tfmodisco_calls_with_rows")
		rec.maxv("tfmodisco_max_rows_in_one_call", len(rows))
		report(cls, params, rec, found, len(rows), small_track(params, X64))
		return

	raise ValueError("unknown fn %r" % (fn,))


def replay_env(case):
	if case.get("params", {}).get("fn") == "_recursive_seqlets":
		return {"NUMBA_BOUNDSCHECK": "1"}
	return {}


# ---------------------------------------------------------------------------
# workload

LENGTHS = [40, 41, 47, 64, 97, 128, 200, 255, 400, 600]


def log_uniform(r, lo, hi):
	return math.exp(r.uniform(math.log(lo), math.log(hi)))


def draw_bumps(r, n, L, nb, wlo, whi, edge_positions, hlo, hhi, integer):
	"""nb bumps [example, position, width, signed height]; the first ones
	take the edge positions (functions of the width) in random order."""
	bumps = []
	edges = list(edge_positions)
	r.shuffle(edges)
	for b in range(nb):
		w = r.randint(wlo, max(wlo, min(whi, L // 3)))
		if edges:
			pos = edges.pop()(w)
		else:
			pos = r.randint(0, L - w)
		pos = max(0, min(pos, L - w))
		h = r.uniform(hlo, hhi) * r.choice([-1, 1])
		if integer:
			h = int(round(h)) or 5
		bumps.append([r.randrange(n), pos, w, h])
	return bumps


def gen_recursive(r, mode, tags, fn="recursive_seqlets"):
	n = r.randint(1, 6)
	L = r.choice(LENGTHS + [r.randint(40, 600)] * 4)
	integer = mode == "integer"
	if integer:
		n, L = r.randint(1, 3), r.choice([40, 44, 50, 60, 80])
	mn = r.choice([3, 3, 4, 4, 5, 6, 8, r.randint(3, 29)])
	mx = r.randint(mn + 1, 30)
	if r.random() < 0.04:
		mx = mn                      # legal configuration, never calls anything
	af = r.randint(0, 5)
	# small inputs have few windows per length, so only generous thresholds
	# can call anything there; keep the full range 0.001-0.2 overall
	if r.random() < 0.5:
		thr = log_uniform(r, 0.001, 0.2)
	else:
		thr = log_uniform(r, min(0.2, max(0.001, 8.0 / (n * L))), 0.2)
	if mode in ("edge", "integer"):
		if r.random() < 0.85:
			af = r.randint(1, 5)
		L_ = L
		edges = [lambda w: 0, lambda w: 1, lambda w: L_ - w - 1,
			lambda w: L_ - w, lambda w: 2, lambda w: L_ - w - 2]
		nb = r.randint(2, 10)
	elif mode == "random":
		edges = []
		nb = r.randint(0, 10)
	else:
		raise ValueError(mode)
	bumps = draw_bumps(r, n, L, nb, 3, 25, edges, 3.0, 12.0, integer)
	p = {"fn": fn, "n": n, "L": L,
		"dtype": r.choice(["float64", "float64", "float32"]),
		"container": "numpy" if fn == "_recursive_seqlets" else r.choice(
			["numpy", "torch"]),
		"noise": list(tags), "bumps": bumps,
		"threshold": thr, "min": mn, "max": mx, "flanks": af}
	if integer:
		p["integer"] = True
	else:
		p["sigma"] = r.choice([1.0, 1.0, 0.01, 37.5])
	return p


def gen_tfmodisco(r, mode, tags):
	n = r.randint(1, 6)
	L = r.choice(LENGTHS + [r.randint(40, 600)] * 4)
	w = r.randint(5, 21)
	fl = r.randint(0, 10)
	if mode == "edge":
		# make room for at least a few admissible windows
		while L - w + 1 - 2 * fl < 5:
			L += 20
		L_, w_, fl_ = L, w, fl
		edges = [lambda k: fl_, lambda k: L_ - w_ - fl_, lambda k: 0,
			lambda k: 1, lambda k: L_ - k - 1, lambda k: L_ - k,
			lambda k: fl_ + 1, lambda k: L_ - w_ - fl_ - 1]
		nb = r.randint(2, 10)
	else:
		edges = []
		nb = r.randint(0, 10)
	bumps = draw_bumps(r, n, L, nb, max(3, w - 4), w + 4, edges, 1.5, 8.0,
		False)
	p = {"fn": "tfmodisco_seqlets", "n": n, "L": L, "dtype": "float32",
		"container": "torch", "noise": list(tags), "bumps": bumps,
		"sigma": r.choice([1.0, 1.0, 0.01, 37.5]),
		"window": w, "flank": fl,
		"target_fdr": r.choice([None, None, 0.05, 0.1, 0.3])}
	if mode == "float64":
		p["dtype"] = "float64"
	return p


def handmade_cases():
	"""Small integer tracks that can be checked by hand: background
	(7t mod 5) - 2, one bump 10..14 next to the left or right end."""
	out = []
	L = 40
	for side in ("left", "right"):
		for off in (1, 2):
			row = [float((t * 7) % 5 - 2) for t in range(L)]
			pos = off if side == "left" else L - 5 - off
			row[pos:pos + 5] = [10.0, 11.0, 12.0, 13.0, 14.0]
			for af in (0, 1, 2, 3, 5):
				for dtype in ("float64", "float32"):
					out.append({"fn": "recursive_seqlets", "n": 1, "L": L,
						"dtype": dtype, "container": "numpy", "track": [row],
						"bumps": [[0, pos, 5, 10]], "threshold": 0.2, "min": 3,
						"max": 4, "flanks": af})
	return out


def plan(tier, seed):
	units = [{"cls": "handmade", "mode": "handmade", "k": 0, "seed": seed,
		"count": 1, "weight": 1}]
	if tier == "quick":
		nrec, ntfm, nbc, per = 48, 24, 8, 24
	else:
		nrec, ntfm, nbc, per = 320, 200, 64, 300
	for k in range(nrec):
		mode = ("edge", "random", "edge", "integer")[k % 4]
		units.append({"cls": "recursive", "mode": mode, "k": k, "seed": seed,
			"count": per, "weight": 2})
	for k in range(ntfm):
		mode = ("edge", "random")[k % 2]
		units.append({"cls": "tfmodisco", "mode": mode, "k": k, "seed": seed,
			"count": per // 2 if tier == "quick" else per // 3,
			"weight": 4})
	units.append({"cls": "tfmodisco", "mode": "float64", "k": 10 ** 6,
		"seed": seed, "count": 6, "weight": 1})
	for k in range(nbc):
		mode = ("edge", "random", "integer", "edge")[k % 4]
		units.append({"cls": "boundscheck", "mode": mode, "k": k, "seed": seed,
			"count": per, "weight": 2, "env": {"NUMBA_BOUNDSCHECK": "1"}})
	return units


def run_unit(unit, rec):
	kind, mode, k, seed = unit["cls"], unit["mode"], unit["k"], unit["seed"]
	if kind == "handmade":
		for p in handmade_cases():
			run_case("recursive/handmade-edge-tracks", p, rec)
		return
	r = gen.pyrng(ID, seed, kind, mode, k)
	for it in range(unit["count"]):
		tags = (ID, seed, kind, mode, k, it)
		if kind == "recursive":
			run_case("recursive/%s-bumps" % mode if mode != "integer"
				else "recursive/integer-tracks",
				gen_recursive(r, mode, tags), rec)
		elif kind == "boundscheck":
			run_case("recursive-kernel-boundscheck/%s" % mode,
				gen_recursive(r, mode, tags, fn="_recursive_seqlets"), rec)
		elif kind == "tfmodisco":
			run_case("tfmodisco/%s" % (mode + "-bumps" if mode != "float64"
				else "float64-input"), gen_tfmodisco(r, mode, tags), rec)
		else:
			raise ValueError(kind)
