"""C05  DeepLIFT/SHAP multipliers equal an independent rescale-rule computation.

Monitor: raw multipliers, hypothetical and observed attributions returned by
deep_lift_shap are compared element-wise with vf/refs/dls.ref_multipliers,
which forwards example and reference *separately*, layer by layer, and walks
back from the one-hot target vector using single-layer VJPs for linear layers
and (out(x)-out(ref))/(in(x)-in(ref)) for activations.  Affine models are
additionally checked in closed form, with the biases re-randomised.
"""

import copy

import torch

from .. import gen
from ..refs import dls

ID = "C05"
LEVEL = "exploration"
RULE = ("one case = one generated sequential architecture without max-pooling "
	"(Conv1d/Linear/AvgPool1d/Flatten/Unflatten + one of 16 element-wise "
	"activations per slot), float64 or integer weights, n examples x "
	"n_shuffles references; raw multipliers, hypothetical=True and default "
	"attributions are each compared with the independent reference for "
	"every example-reference pair; affine architectures also in closed form "
	"with re-randomised biases.  Non-trivial = at least one activation unit "
	"has delta_in != 0 for some pair (the rescale ratio is actually used) or "
	"the architecture is affine with x != ref; distinct = distinct "
	"(architecture, weights, inputs).")
ASSUMPTIONS = [
	"tolerance 1e-9 * max(1, max|m|) element-wise in float64",
	"a pair in which some activation unit has 1e-7 < |delta_in| < 1e-5 is "
	"skipped as ambiguous (inconclusive)",
	"where |delta_in| < 1e-6 the ordinary derivative at the example's "
	"pre-activation is the expected factor",
]
REQUIRED = {"models_with_user_forward_hooks": 5, "prior_override_calls": 10, "pairs_compared": 200, "units_with_ratio": 500,
	"units_with_zero_delta": 100, "affine_cases": 3}
TECHNIQUE = ("runtime monitoring: independent layer-by-layer rescale-rule "
	"reference compared element-wise with every observed deep_lift_shap "
	"output")


def close(a, b, scale):
	return bool(((a - b).abs() <= 1e-9 * max(1.0, scale)).all())


def run_case(cls, params, rec):
	from tangermeme.deep_lift_shap import deep_lift_shap
	from .c04 import make_inputs
	spec = params["spec"]
	A, L, n, ns = params["A"], params["L"], params["n"], params["n_shuffles"]
	model = dls.build(spec, params["wseed"], params.get("weights", "float"))
	X, refs = make_inputs(dict(params, refs="given"))
	# same values handed over as views into larger storages
	params, X, _ = gen.apply_layout(params, rec, X)
	refs = gen.relayout(refs, gen.layout_of(params, "refs"))[0]
	if params.get("prior_float32_call"):
		# call history on the SAME model object: used in single precision
		# first, then converted to double (anything cached on the modules by
		# the first call must not leak into the second).  The reference copy
		# is taken afterwards, so both see the same (rounded) weights.
		model.float()
		gen.call(deep_lift_shap, model, X.float(), target=params["target"],
			batch_size=params["batch_size"], device="cpu",
			references=refs.float())
		model.double()
		rec.count("prior_float32_calls")
	plain = copy.deepcopy(model)
	if params.get("mixed_mode"):
		# root in eval mode, mode-dependent layers switched back to train
		# mode (as after swapping in a fresh layer or an MC-dropout setup):
		# deep_lift_shap has to evaluate the network in eval mode
		for m_ in model.modules():
			if isinstance(m_, torch.nn.RReLU):
				m_.train()
				rec.count("rrelu_layers_left_in_train_mode")
	if params.get("user_hooks", gen.pyrng("C05hooks", params["wseed"],
		params["iseed"] if "iseed" in params else 0).randrange(5) == 0):
		# the caller's own harmless forward hooks on the non-linear layers
		# (an activation recorder): the rules must still be applied there
		seen_ = []
		for m_ in model.modules():
			if isinstance(m_, dls.ACT_TYPES + (torch.nn.MaxPool1d,)):
				m_.register_forward_hook(lambda mod, i, o: seen_.append(1))
		rec.count("models_with_user_forward_hooks")
	target = params["target"]
	desc = {"arch": dls.describe(spec), "A": A, "L": L, "n": n,
		"n_shuffles": ns, "batch_size": params["batch_size"],
		"target": target}
	kw = dict(target=target, batch_size=params["batch_size"], device="cpu",
		references=refs)
	rec.setadd("reference_kinds", params.get("refkind", "onehot"))
	if params.get("prior_override_call"):
		# call history: an earlier call that overrides the handlers of the
		# built-in activations (plain gradient instead of the rescale rule)
		# must not influence this one
		def plain_handler(module, grad_input, grad_output):
			return grad_input
		ov = {t: plain_handler for t in dls.ACT_TYPES}
		other = dls.build(spec, params["wseed"] + 5, "float")
		gen.call(deep_lift_shap, other, X, additional_nonlinear_ops=ov, **kw)
		rec.count("prior_override_calls")
	st, mult = gen.call(deep_lift_shap, model, X, raw_outputs=True, **kw)
	if st == "raise":
		rec.violation(cls, params, dict(desc, what="deep_lift_shap raised",
			error=repr(mult)[:400]), mech="C05/raised")
		return
	st, hyp = gen.call(deep_lift_shap, model, X, hypothetical=True, **kw)
	st2, obs = gen.call(deep_lift_shap, model, X, **kw)
	if st == "raise" or st2 == "raise":
		rec.violation(cls, params, dict(desc, what="deep_lift_shap raised",
			error=repr(hyp if st == "raise" else obs)[:400]),
			mech="C05/raised")
		return
	if tuple(mult.shape) != (n, ns, A, L) or tuple(hyp.shape) != (n, A, L) \
		or tuple(obs.shape) != (n, A, L):
		rec.violation(cls, params, dict(desc, what="output shapes %s %s %s" %
			(tuple(mult.shape), tuple(hyp.shape), tuple(obs.shape))),
			mech="C05/shape")
		return
	affine = dls.has_bias_free_linearity(spec)
	used_ratio = False
	ambiguous = False
	for i in range(n):
		exp_h = torch.zeros(A, L, dtype=torch.float64)
		skip = False
		for j in range(ns):
			info = dls.ref_multipliers(plain, X[i:i + 1], refs[i, j][None],
				target)
			if info["ambiguous"]:
				ambiguous = skip = True
				continue
			m = info["m"]
			rec.count("pairs_compared")
			rec.count("units_with_ratio", info["n_units"] -
				info["n_units_small"])
			rec.count("units_with_zero_delta", info["n_units_zero"])
			if info["n_units"] - info["n_units_small"] > 0:
				used_ratio = True
			scale = float(m.abs().max())
			if not close(mult[i, j], m, scale):
				d = (mult[i, j] - m).abs()
				c, p = divmod(int(d.argmax()), L)
				rec.violation(cls, params, dict(desc, what="multiplier "
					"differs from the independent rescale-rule value",
					example=i, reference=j, char=c, position=p,
					got=float(mult[i, j, c, p]), expected=float(m[c, p]),
					max_abs_diff=float(d.max())), mech="C05/multipliers")
				return
			exp_h += dls.hypothetical_from_multipliers(m, refs[i, j])
		if skip:
			continue
		exp_h /= ns
		scale = float(exp_h.abs().max())
		if not close(hyp[i], exp_h, scale):
			d = (hyp[i] - exp_h).abs()
			c, p = divmod(int(d.argmax()), L)
			rec.violation(cls, params, dict(desc, what="hypothetical "
				"attribution differs from sum_c (e_k - ref)[c] m[c] averaged "
				"over references", example=i, char=c, position=p,
				got=float(hyp[i, c, p]), expected=float(exp_h[c, p])),
				mech="C05/hypothetical")
			return
		if not close(obs[i], exp_h * X[i], scale):
			d = (obs[i] - exp_h * X[i]).abs()
			c, p = divmod(int(d.argmax()), L)
			rec.violation(cls, params, dict(desc, what="attribution of the "
				"observed characters differs", example=i, char=c, position=p,
				got=float(obs[i, c, p]), expected=float((exp_h * X[i])[c,
				p])), mech="C05/observed")
			return
	if affine:
		rec.count("affine_cases")
		# closed form: W_eff[c, p] = f(unit(c, p)) - f(0), exact for affine f
		with torch.no_grad():
			zero = torch.zeros(1, A, L, dtype=torch.float64)
			f0 = plain(zero)[0, target]
			W = torch.zeros(A, L, dtype=torch.float64)
			for c in range(A):
				for p in range(L):
					u = zero.clone()
					u[0, c, p] = 1
					W[c, p] = plain(u)[0, target] - f0
		for i in range(n):
			contrib = (W[None] * (X[i][None] - refs[i])).sum(dim=1).mean(
				dim=0)                                # (L,)
			got = obs[i].sum(dim=0)
			if not close(got, contrib, float(contrib.abs().max())):
				rec.violation(cls, params, dict(desc, what="affine model: "
					"attribution != mean_ref sum_c W[c,pos]*(x-ref)[c,pos]",
					example=i, got=got.tolist()[:8],
					expected=contrib.tolist()[:8]), mech="C05/affine")
				return
		# bias independence
		m2 = copy.deepcopy(plain)
		g = torch.Generator().manual_seed(params["wseed"] + 17)
		with torch.no_grad():
			for name, p in m2.named_parameters():
				if name.endswith("bias"):
					p.copy_(torch.randn(p.shape, generator=g,
						dtype=p.dtype) * 3)
		st, obs2 = gen.call(deep_lift_shap, m2, X, **kw)
		if st == "raise" or not close(obs2, obs, float(obs.abs().max())):
			rec.violation(cls, params, dict(desc, what="affine model: "
				"attributions changed when only the biases changed"),
				mech="C05/affine")
			return
	if ambiguous:
		rec.inconclusive(cls, params, "ambiguous delta_in band")
		return
	rec.held(cls, params, nontrivial=used_ratio or (affine and bool((
		X[:, None] != refs).any())))


def gen_case(seed, k):
	r = gen.pyrng("C05", seed, k)
	A = r.choice([2, 3, 4, 4, 5])
	L = r.randint(4, 20)
	force = dls.ACT_NAMES[k % len(dls.ACT_NAMES)]
	if k % 9 == 8:
		# affine: no activations at all
		spec = [s for s in dls.gen_arch(r, A, L) if s["t"] != "act"]
	else:
		spec = dls.gen_arch(r, A, L, force_act=force)
	n, ns = 3, 3
	return {"A": A, "L": L, "spec": spec, "wseed": r.randrange(10 ** 6),
		"weights": "int" if k % 7 == 3 else "big" if k % 7 == 5 else "float",
		"n": n, "prior_float32_call": k % 8 == 6,
		"n_shuffles": ns, "batch_size": r.choice([1, 2, 4, 9, 10, 32]),
		"target": r.randrange(dls.n_targets(spec)), "near": r.random() < 0.5,
		"iseed": r.randrange(10 ** 6),
		"refkind": r.choice(["onehot", "onehot", "onehot", "zeros",
		"uniform", "soft", "onehotN"]),
		"prior_override_call": k % 4 == 1, "mixed_mode": True}


def plan(tier, seed):
	n_arch = 160 if tier == "quick" else 30000
	per = 8 if tier == "quick" else 250
	return [{"cls": "arch", "k0": k, "k1": min(n_arch, k + per),
		"seed": seed, "weight": per} for k in range(0, n_arch, per)]


def run_unit(unit, rec):
	for k in range(unit["k0"], unit["k1"]):
		params = gen_case(unit["seed"], k)
		for s in params["spec"]:
			if s["t"] == "act":
				rec.setadd("activation_types", s["name"])
		cls = "affine" if dls.has_bias_free_linearity(params["spec"]) \
			else "nonlinear"
		run_case(cls, params, rec)
