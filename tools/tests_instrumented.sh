#!/bin/bash
# Runs the repository's OWN tests of the numba-compiled modules with the
# instruments the checks use: NUMBA_BOUNDSCHECK=1 (index errors instead of
# silent out-of-bounds reads; would have reported the tomtom row overrun that
# made test_tomtom_homomotifs fail intermittently) and two MALLOC_PERTURB_
# values (results that depend on uninitialised / neighbouring heap memory
# differ between the two).  Not a registered check - a diagnostic.
REPO="${VERIF_REPO:-/repo}"
cd "$REPO" || exit 2
FILES="tests/tools/test_fimo.py tests/tools/test_tomtom.py tests/test_seqlet.py tests/test_annotate.py tests/test_ersatz.py tests/test_utils.py tests/test_kmers.py"
rc=0
env -u TANGERMEME_VERIF NUMBA_BOUNDSCHECK=1 NUMBA_CACHE_DIR=/tmp/nb-tests-bc \
	/venv/bin/python -m pytest -q -p no:cacheprovider --timeout=1800 $FILES 2>&1 | tail -3 || rc=1
for v in 90 165; do
	env -u TANGERMEME_VERIF MALLOC_PERTURB_=$v NUMBA_CACHE_DIR=/tmp/nb-tests \
		/venv/bin/python -m pytest -q -p no:cacheprovider --timeout=1800 $FILES 2>&1 | tail -3 || rc=1
done
rm -rf /tmp/nb-tests-bc /tmp/nb-tests
exit $rc
