#!/bin/bash
# usage: tools/sweep.sh <quick|thorough> "<seeds>" [ids...]   - runs the checks for several VERIF_SEED values
# from fresh processes and prints one summary line + exit code per run (used for notes/sweeps_final.log).
HERE="$(cd "$(dirname "${BASH_SOURCE[0]}")/.." && pwd)"
cd "$HERE"
TIER="$1"; SEEDS="$2"; shift 2
IDS="$@"; [ -z "$IDS" ] && IDS="C01 C02 C03 C04 C05 C06 C07 C08 C09 C10 C11 C12 C13 C14 C15 C16 C17 C18 C19 C20"
for seed in $SEEDS; do for id in $IDS; do
  echo "=== $id $TIER seed $seed $(date +%T)"
  VERIF_SEED=$seed ./check $id $TIER 2>&1 | grep "^C[0-9][0-9] \|VIOL\|INCONC\|HARNESS\|mechanism\|detail" | cut -c1-500
  echo "exit=${PIPESTATUS[0]}"
done; done
echo ALLDONE
