#!/venv/bin/python
"""Prints a markdown table of the confirmed seeded changes under /verif/seeded
(from their meta.json) - pasted into DESIGN.md section 8.5."""

import glob
import json
import os

HERE = os.path.dirname(os.path.dirname(os.path.abspath(__file__)))


def main():
	print("| seeded change | what it breaks / what it needs | caught by "
		"(mechanism keys) |")
	print("|---|---|---|")
	for d in sorted(glob.glob(os.path.join(HERE, "seeded", "*"))):
		mp = os.path.join(d, "meta.json")
		if not os.path.exists(mp):
			continue
		m = json.load(open(mp))
		det = m.get("detected_by", {})
		caught = "; ".join("%s quick: %s" % (c, ", ".join(sorted({x.split()[0]
			.replace("mechanism=", "") for x in v}))) for c, v in det.items())
		if not caught:
			caught = "**missed** by " + ", ".join(m.get("missed_by", []))
		if m.get("note"):
			caught += " - " + m["note"]
		summ = (m.get("summary") or "").replace("|", "/").replace("\n", " ")
		needs = (m.get("needs") or "").replace("|", "/").replace("\n", " ")
		print("| %s | %s **Needs:** %s | %s |" % (os.path.basename(d),
			summ[:300], needs[:260], caught))


if __name__ == "__main__":
	main()
