"""C15  Sequence representations convert losslessly and invert one another.

Monitors (all at the API boundary: return value or exception of the real
functions in tangermeme.utils, executed on generated workloads)

  * one_hot_encode / characters: every returned encoding is compared cell by
    cell with an encoding built by the harness from the string (dictionary
    lookup, plain Python); every decoded string is compared with the input
    string in which ignored characters are replaced by 'N'.  Illegal
    characters (ASCII and multi-byte) are placed at every position and must be
    rejected.  The numba kernel _fast_one_hot_encode is additionally run with
    NUMBA_BOUNDSCHECK=1 in workers that use a private numba cache (a cached
    object compiled without bounds checks would otherwise be loaded silently)
    and a canary call proves that bounds checking is active.
  * reverse_complement: string result against reversal + complement map,
    involution on strings and tensors, tensor result against the harness'
    own encoder/decoder and against an index formula on tensors whose cells
    all hold different values.
  * chunk / unchunk: tensors whose values encode (sequence, row, position);
    chunk() against the harness' own slicing, unchunk() against the prefix
    of every sequence that is covered by complete chunks.  One sequence of a
    call = one case, so a defect of one reassembly path does not hide the
    verdict on the other sequences of the same call.

Nothing in the oracles calls tangermeme.
"""

import atexit
import itertools
import os
import shutil
import sys
import tempfile

import numpy
import torch

from .. import gen

ID = "C15"
LEVEL = "exploration"
RULE = ("encode/decode: one case = one (alphabet, ignore set, dtype, string) "
	"tuple; per configuration EVERY string over alphabet+ignore up to the "
	"configuration's length bound (6 when |alphabet+ignore| <= 4) is "
	"enumerated, plus seeded random strings up to 10^4 (thorough 10^5); "
	"non-trivial = the string has >= 2 distinct characters or an ignored "
	"character.  illegal: one case = (configuration, legal string, position, "
	"illegal character), every position of strings of length 1..6.  "
	"reverse_complement: one case = (complement map, string, tensor dtype), "
	"every string over ACGT+N up to length 6 (thorough 7); non-trivial = "
	"string is not its own reverse complement.  chunk/unchunk: one case = "
	"one sequence of one (size, overlap, lengths, leading dims, dtype) call; "
	"sizes 1-40 x every overlap x lengths giving 1, 2, 3, ... many complete "
	"chunks with and without an incomplete tail x 1-4 sequences x 2 and 3 "
	"leading dims; non-trivial = overlap > 0 or >= 2 chunks or >= 2 "
	"sequences.  Distinct = distinct tuples (counted with a set, enumerated "
	"scopes are distinct by construction).")
ASSUMPTIONS = [
	"alphabets are lists of distinct single ASCII characters, ignore sets "
	"are lists of single ASCII characters disjoint from the alphabet; when "
	"the ignore set is not empty 'N' is not in the alphabet",
	"the decode half is judged with characters(..., allow_N=True) (ignored "
	"-> 'N') for every string and with the default allow_N=False for "
	"strings without ignored characters",
	"characters() raising on complex / float8 / unsigned-16+ encodings is a "
	"refusal (no ordering or no torch kernel); on every other dtype accepted "
	"by Tensor.type a raise is a violation",
	"'rejected' = any Exception; under NUMBA_BOUNDSCHECK=1 an IndexError is "
	"an out-of-bounds access and is a violation even for an illegal string",
	"complement maps are involutive bijections; tensor rows are ordered like "
	"the keys of the map",
	"chunk() raising when a sequence is shorter than the chunk size (zero "
	"complete chunks) and unchunk(lengths=None) raising are refusals; the "
	"statement promises a result only from one complete chunk upwards and "
	"only speaks about lengths given per sequence",
	"unchunk must return exactly the covered prefix: length size+(k-1)*"
	"(size-overlap); dtype of the result is not judged, values are",
]
REQUIRED = {
	"ohe_roundtrips": 2000, "ohe_with_ignored": 200, "illegal_rejected": 200,
	"boundscheck_active": 1, "boundscheck_cases": 200,
	"rc_strings": 2000, "rc_tensors": 500, "rc_maps_enumerated": 40,
	"rc_histories": 50, "rc_history_prior_raises": 30,
	"unchunk_huge_calls": 2, "chunk_mixed_dtype_calls": 20,
	"characters_layout_calls": 500, "nonplain_layout_cases": 200,
	"unchunk_k1_overlap": 50, "unchunk_k2": 50, "unchunk_k3": 50,
	"unchunk_many": 50, "unchunk_odd_overlap": 50, "unchunk_3lead": 50,
	"unchunk_multi_seq": 50,
}
TIMEOUT = {"quick": 900, "thorough": 5400}

WORK = os.path.join(os.path.dirname(os.path.dirname(os.path.dirname(
	os.path.abspath(__file__)))), ".work")

# --------------------------------------------------------------------------
# dtypes
# --------------------------------------------------------------------------

MAIN_DT = ["int8", "uint8", "int16", "int32", "int64", "float16", "float32",
	"float64", "bool"]
# a raise of characters() on these is a violation
ORDERED_DT = set(MAIN_DT) | {"bfloat16"}
ALL_DT = MAIN_DT + ["bfloat16", "complex64", "complex128", "float8_e4m3fn",
	"float8_e5m2", "uint16", "uint32", "uint64", "complex32",
	"torch.FloatTensor", "torch.DoubleTensor", "torch.HalfTensor",
	"torch.ByteTensor", "torch.CharTensor", "torch.ShortTensor",
	"torch.IntTensor", "torch.LongTensor", "torch.BoolTensor",
	"torch.BFloat16Tensor"]
TYPE_STR = {"torch.FloatTensor": "float32", "torch.DoubleTensor": "float64",
	"torch.HalfTensor": "float16", "torch.ByteTensor": "uint8",
	"torch.CharTensor": "int8", "torch.ShortTensor": "int16",
	"torch.IntTensor": "int32", "torch.LongTensor": "int64",
	"torch.BoolTensor": "bool", "torch.BFloat16Tensor": "bfloat16"}


def dt_of(name):
	"""-> (argument passed as dtype=, torch.dtype expected) or (None, None)
	when this torch build has no such dtype."""
	if name in TYPE_STR:
		return name, getattr(torch, TYPE_STR[name])
	d = getattr(torch, name, None)
	if not isinstance(d, torch.dtype):
		return None, None
	return d, d


def dt_base(name):
	return TYPE_STR.get(name, name)


def type_accepts(arg):
	st, v = gen.call(torch.zeros((1, 2), dtype=torch.int8).type, arg)
	return st == "ok"


# --------------------------------------------------------------------------
# one_hot_encode / characters
# --------------------------------------------------------------------------

def expected_rows(s, alphabet):
	"""The harness' own encoding as nested lists (len(alphabet) x len(s))."""
	pos = {}
	for a, ch in enumerate(alphabet):
		pos[ch] = a
	rows = [[0] * len(s) for _ in alphabet]
	for p, ch in enumerate(s):
		a = pos.get(ch)
		if a is not None:
			rows[a][p] = 1
	return rows


def with_N(s, ignore):
	return "".join("N" if ch in ignore else ch for ch in s)


def _wit(alphabet, ignore, dtname, s, **more):
	d = {"alphabet": list(alphabet), "ignore": list(ignore), "dtype": dtname,
		"sequence": s if len(s) <= 200 else s[:200] + "...(%d)" % len(s)}
	d.update(more)
	return d


SEEN = {}        # counters of monitors that have no Recorder at hand


def ohe_check(utils, alphabet, ignore, dtname, s, boundscheck=False,
	defaults=False, fast=False, obs=None):
	"""Runs one_hot_encode and characters on one legal string.
	-> None (held) | ("violation", mech, detail) | ("refusal", text)."""
	arg, tdt = dt_of(dtname)
	al, ig = list(alphabet), list(ignore)
	if defaults:
		kw = {} if dtname == "int8" else {"dtype": arg}
	else:
		kw = {"alphabet": al, "dtype": arg, "ignore": ig}
	st, x = gen.call(utils.one_hot_encode, s, **kw)
	if st == "raise":
		if boundscheck and isinstance(x, IndexError):
			return ("violation", "C15/encode-out-of-bounds", _wit(alphabet,
				ignore, dtname, s, what="IndexError under NUMBA_BOUNDSCHECK=1 "
				"while encoding a legal string", error=repr(x)[:300]))
		return ("violation", "C15/encode-raised" + ("-empty" if not s else ""),
			_wit(alphabet, ignore, dtname, s, what="one_hot_encode raised on "
			"a string over alphabet+ignore", error=repr(x)[:300]))
	if not isinstance(x, torch.Tensor) or tuple(x.shape) != (len(al), len(s)):
		return ("violation", "C15/encode-shape", _wit(alphabet, ignore, dtname,
			s, what="encoding is not a tensor of shape (len(alphabet), "
			"len(sequence))", got=str(getattr(x, "shape", type(x)))))
	if x.dtype != tdt:
		return ("violation", "C15/encode-dtype", _wit(alphabet, ignore, dtname,
			s, what="encoding has dtype %s" % x.dtype))
	if fast:
		sa = numpy.array(list(s))
		exp = (sa[None, :] == numpy.array(al)[:, None])
		xr = x.real if x.is_complex() else x
		got = xr.to(torch.float64).numpy()
		ok = numpy.array_equal(got, exp.astype(numpy.float64))
		if ok and x.is_complex():
			ok = bool((x.imag == 0).all())
		if not ok:
			bad = numpy.argwhere(got != exp.astype(numpy.float64))
			a, p = (int(bad[0][0]), int(bad[0][1])) if len(bad) else (-1, -1)
			return ("violation", "C15/encode-wrong", _wit(alphabet, ignore,
				dtname, s, what="encoding differs from the dictionary "
				"encoding", position=p, row=a, character=s[p],
				got_column=got[:, p].tolist(),
				expected_column=exp[:, p].astype(int).tolist()))
	else:
		exp = expected_rows(s, al)
		st, got = gen.call(x.tolist)
		if st == "raise":
			st, got = gen.call(lambda: x.to(torch.float64).tolist())
		if st == "raise":
			return ("inconclusive", "cannot read back a %s tensor" % x.dtype)
		if got != exp:
			return ("violation", "C15/encode-wrong", _wit(alphabet, ignore,
				dtname, s, what="encoding differs from the dictionary "
				"encoding (column sum not in {0,1} or 1 in the wrong row)",
				got=str(got)[:400], expected=str(exp)[:400]))
	if obs is not None:
		obs["enc"] = obs.get("enc", 0) + 1
	# ---- decode
	base = dt_base(dtname)
	has_ign = any(ch in ig for ch in s)
	want = with_N(s, ig)
	ckw = {} if defaults else {"alphabet": al}
	calls = [("allow_N=True", dict(ckw, allow_N=True), want)]
	if not has_ign:
		calls.append(("default", dict(ckw), s))
	lay = gen.layout_of((s, dtname, alphabet))
	if lay != "plain" and s and base in ("int8", "float32", "float64",
		"int64", "uint8", "int32", "int16"):
		# the same encoding as a view into a larger storage
		st, c = gen.call(utils.characters, gen.relayout(x, lay)[0],
			**dict(ckw, allow_N=True))
		SEEN["characters_layout_calls"] = SEEN.get("characters_layout_calls",
			0) + 1
		if st == "raise" or c != want:
			return ("violation", "C15/characters-memory-layout", _wit(alphabet,
				ignore, dtname, s, what="characters() of the same encoding "
				"held in another memory layout (%s) %s" % (lay, "raised"
				if st == "raise" else "differs"), got=repr(c)[:300],
				expected=repr(want)[:300]))
	for label, k, w in calls:
		st, c = gen.call(utils.characters, x, **k)
		if st == "raise":
			if not s:
				return ("violation", "C15/characters-empty-sequence", _wit(
					alphabet, ignore, dtname, s, what="characters(%s) raised "
					"on the encoding of the empty string (expected '')" %
					label, error=repr(c)[:300]))
			if base not in ORDERED_DT:
				return ("refusal", "characters raised on dtype %s: %s" % (
					base, repr(c)[:60]))
			return ("violation", "C15/characters-raised" + ("" if base in (
				"int8", "float32") else "-" + base), _wit(alphabet, ignore,
				dtname, s, what="characters(%s) raised on an encoding "
				"returned by one_hot_encode" % label, error=repr(c)[:300]))
		if not isinstance(c, str) or c != w:
			mech = "C15/roundtrip-mismatch"
			if "\x00" in al and isinstance(c, str) and c == w.replace(
				"\x00", ""):
				# exactly the NUL characters are missing from the result
				mech = "C15/characters-nul-in-alphabet"
			elif not s:
				mech = "C15/characters-empty-sequence"
			return ("violation", mech, _wit(alphabet, ignore, dtname, s,
				what="characters(%s)(one_hot_encode(s)) != s (ignored -> N)"
				% label, got=repr(c)[:300], expected=repr(w)[:300]))
	return None


def illegal_check(utils, alphabet, ignore, dtname, s, pos, ch,
	boundscheck=False):
	arg, tdt = dt_of(dtname)
	t = s[:pos] + ch + s[pos + 1:]
	st, x = gen.call(utils.one_hot_encode, t, alphabet=list(alphabet),
		dtype=arg, ignore=list(ignore))
	if st == "ok":
		return ("violation", "C15/illegal-char-accepted", _wit(alphabet,
			ignore, dtname, t, what="character %r at position %d is in "
			"neither alphabet nor ignore but the call returned" % (ch, pos),
			got=str(x.tolist())[:300]))
	if boundscheck and isinstance(x, IndexError):
		return ("violation", "C15/encode-out-of-bounds", _wit(alphabet, ignore,
			dtname, t, what="IndexError under NUMBA_BOUNDSCHECK=1 (out of "
			"bounds access) instead of a clean rejection", error=repr(x)[:300]))
	return None


def illegal_chars(alphabet, ignore):
	both = set(alphabet) | set(ignore)
	cand = []
	for ch in alphabet + ignore:
		cand += [ch.swapcase(), chr(max(0, ord(ch) - 1)),
			chr(min(127, ord(ch) + 1))]
	cand += ["N", "n", " ", "~", "\x00", "\x7f", "\n", "-", "*",
		"é", "Ω", "€", "\U0001F600", "\u0080", "ÿ"]
	out = []
	for ch in cand:
		if len(ch) == 1 and ch not in both and ch not in out:
			out.append(ch)
	return out


def report(rec, cls, params, res, nontrivial=True):
	if res is None:
		rec.held(cls, params, nontrivial=nontrivial)
	elif res[0] == "violation":
		rec.violation(cls, params, res[2], mech=res[1])
	elif res[0] == "refusal":
		rec.refusal(cls, params, res[1])
	else:
		rec.inconclusive(cls, params, res[1])


def ohe_nontrivial(s, ignore):
	return len(set(s)) >= 2 or any(ch in ignore for ch in s)


def case_ohe(cls, params, rec):
	utils = get_utils(params.get("boundscheck"), rec)
	if utils is None:
		rec.inconclusive(cls, params, "bounds checking not active")
		return
	res = ohe_check(utils, params["alphabet"], params["ignore"],
		params["dtype"], params["s"], boundscheck=params.get("boundscheck"),
		defaults=params.get("defaults", False), fast=len(params["s"]) > 64)
	report(rec, cls, params, res, ohe_nontrivial(params["s"],
		params["ignore"]))


def case_illegal(cls, params, rec):
	utils = get_utils(params.get("boundscheck"), rec)
	if utils is None:
		rec.inconclusive(cls, params, "bounds checking not active")
		return
	res = illegal_check(utils, params["alphabet"], params["ignore"],
		params["dtype"], params["s"], params["pos"], params["ch"],
		boundscheck=params.get("boundscheck"))
	report(rec, cls, params, res, True)


# ---- bounds-checked kernel ---------------------------------------------------

_BC = {"active": None}


def get_utils(boundscheck, rec):
	"""tangermeme.utils; for bounds-check work: imported with a private numba
	cache directory and verified with a canary.  -> module or None."""
	if not boundscheck:
		from tangermeme import utils
		return utils
	if _BC["active"] is None:
		if "tangermeme.utils" not in sys.modules:
			os.makedirs(WORK, exist_ok=True)
			d = tempfile.mkdtemp(prefix="c15-numba-bc-", dir=WORK)
			atexit.register(shutil.rmtree, d, ignore_errors=True)
			os.environ["NUMBA_CACHE_DIR"] = d
			if "numba" in sys.modules:
				sys.modules["numba"].config.CACHE_DIR = d
		from tangermeme import utils
		# canary (harness-owned kernel, so that it does not depend on the
		# package's private helpers): index 2 of a 2-element view; without
		# bounds checking the write lands inside the harness-owned 6-element
		# buffer (harmless)
		import numba

		@numba.njit
		def canary(a):
			a[2] = 1
		buf = numpy.zeros(6, dtype=numpy.int8)
		st, v = gen.call(canary, buf[:2])
		X = buf
		_BC["active"] = (os.environ.get("NUMBA_BOUNDSCHECK") == "1"
			and st == "raise" and isinstance(v, IndexError))
		if _BC["active"]:
			rec.count("boundscheck_active")
		else:
			rec.count("boundscheck_NOT_active")
			rec.note("bounds-check canary: %s %r" % (st, v if st == "raise"
				else X.tolist()))
	from tangermeme import utils
	return utils if _BC["active"] else None


def replay_env(case):
	if (case.get("params") or {}).get("boundscheck"):
		return {"NUMBA_BOUNDSCHECK": "1"}
	return {}


# ---- configurations ---------------------------------------------------------

PRINTABLE = [chr(c) for c in range(32, 127)]

FIXED_CONFIGS = [
	("ACGT", "N"), ("ACGT", ""), ("ACGU", "N"), ("ACGT", "N-"), ("TGCA", "n"),
	("acgt", "N"), ("AC", ""), ("A", ""), ("A", "N"), ("01", ""),
	("ACGTN", ""), ("ACDEFGHI", "XZ"), (" ~", "!"), ("\\\"'", "%"),
	("aA", "bB"), ("ACGTRYKM", "N."), ("GATC", "*"), ("@[`{", "/:"),
	("ab", "c"), ("T", "AC"), ("ACG", "T"), ("ACGTU", ""), ("-", "."),
]


def make_configs(tier, seed):
	out, seen = [], set()

	def add(a, i):
		key = (a, i)
		if key not in seen:
			seen.add(key)
			out.append(key)
	for a, i in FIXED_CONFIGS:
		add(a, i)
	reps = 1 if tier == "quick" else 10
	r = gen.pyrng(ID, seed, "configs")
	for rep in range(reps):
		for A in range(1, 9):
			for I in range(0, 3):
				pool = [c for c in PRINTABLE if not (I > 0 and c == "N")]
				chars = r.sample(pool, A + I)
				add("".join(chars[:A]), "".join(chars[A:]))
	return out


def length_bound(Q, tier):
	cap = 8192 if tier == "quick" else 70000
	L = 1
	while L < 6 and Q ** (L + 1) <= cap:
		L += 1
	return L


def run_ohe_config(unit, rec):
	"""Every string up to the bound (one part of them) + illegal characters."""
	alphabet, ignore, dtname = unit["alphabet"], unit["ignore"], unit["dtype"]
	bc = bool(unit.get("boundscheck"))
	utils = get_utils(bc, rec)
	sfx = "-boundscheck" if bc else ""
	cls = "ohe-exh" + sfx
	base = {"kind": "ohe", "alphabet": alphabet, "ignore": ignore,
		"dtype": dtname}
	if bc:
		base["boundscheck"] = True
	if utils is None:
		rec.inconclusive(cls, base, "bounds checking not active")
		return
	symbols = alphabet + ignore
	part, nparts = unit.get("part", 0), unit.get("nparts", 1)
	defaults = (alphabet, ignore) == ("ACGT", "N") and dtname == "int8"
	n = nt = nign = 0
	idx = 0
	sample = None
	for L in range(1, unit["Lmax"] + 1):
		for tup in itertools.product(symbols, repeat=L):
			idx += 1
			if idx % nparts != part:
				continue
			s = "".join(tup)
			res = ohe_check(utils, alphabet, ignore, dtname, s,
				boundscheck=bc, defaults=defaults and idx % 2 == 0)
			if res is None:
				n += 1
				if ohe_nontrivial(s, ignore):
					nt += 1
				if any(ch in ignore for ch in s):
					nign += 1
				sample = s
			else:
				p = dict(base, s=s)
				if defaults and idx % 2 == 0:
					p["defaults"] = True
				report(rec, cls, p, res)
	if n:
		rec.bulk_held(cls, n, nt, sample=dict(base, s=sample))
	rec.count("ohe_roundtrips", n)
	rec.count("ohe_with_ignored", nign)
	if bc:
		rec.count("boundscheck_cases", n)
	rec.mark_exhaustive(cls)
	rec.setadd("alphabet_sizes", len(alphabet))
	rec.setadd("ignore_sizes", len(ignore))
	rec.setadd("dtypes_encoded", dt_base(dtname))
	rec.maxv("max_exhaustive_length", unit["Lmax"])
	if part != 0:
		return
	# ---- illegal characters at every position
	cls = "ohe-illegal" + sfx
	r = gen.pyrng(ID, "illegal", alphabet, ignore)
	bad = illegal_chars(alphabet, ignore)
	n = 0
	for L in list(range(1, 7)) + [40]:
		for rep in range(2):
			s = gen.rand_seq(r, L, symbols)
			positions = range(L) if L <= 6 else (0, 1, L // 2, L - 2, L - 1)
			for pos in positions:
				for ch in bad:
					res = illegal_check(utils, alphabet, ignore, dtname, s,
						pos, ch, boundscheck=bc)
					if res is None:
						n += 1
					else:
						report(rec, cls, dict(base, kind="illegal", s=s,
							pos=pos, ch=ch), res)
	if n:
		rec.bulk_held(cls, n, n, sample=dict(base, kind="illegal", s=s,
			pos=pos, ch=ch))
	rec.count("illegal_rejected", n)
	if bc:
		rec.count("boundscheck_cases", n)
	rec.setadd("illegal_characters", ",".join("%04x" % ord(c) for c in bad[:6]))


def run_ohe_misc(unit, rec):
	"""empty string, every dtype, control-character alphabets, alphabet
	container forms."""
	utils = get_utils(False, rec)
	what = unit["what"]
	if what == "empty":
		for k, (a, i) in enumerate(FIXED_CONFIGS[:12]):
			dtname = MAIN_DT[k % len(MAIN_DT)]
			case_ohe("ohe-empty", {"kind": "ohe", "alphabet": a, "ignore": i,
				"dtype": dtname, "s": ""}, rec)
		case_ohe("ohe-empty", {"kind": "ohe", "alphabet": "ACGT",
			"ignore": "N", "dtype": "int8", "s": "", "defaults": True}, rec)
	elif what == "dtypes":
		r = gen.pyrng(ID, unit["seed"], "dtypes")
		for dtname in ALL_DT:
			arg, tdt = dt_of(dtname)
			if arg is None or not type_accepts(arg):
				rec.setadd("dtypes_not_accepted_by_type", dtname)
				continue
			rec.setadd("dtypes_accepted_by_type", dtname)
			for a, i in (("ACGT", "N"), ("ACDEFGHI", "XZ"), ("A", ""),
				("ab", "c")):
				strs = ["".join(t) for L in (1, 2) for t in
					itertools.product(a + i, repeat=L)]
				strs += [gen.rand_seq(r, L, a + i) for L in (3, 5, 6, 17, 100,
					1000)]
				for s in strs:
					p = {"kind": "ohe", "alphabet": a, "ignore": i,
						"dtype": dtname, "s": s}
					res = ohe_check(utils, a, i, dtname, s, fast=len(s) > 64)
					report(rec, "ohe-dtypes", p, res, ohe_nontrivial(s, i))
					if res is None:
						rec.count("ohe_roundtrips")
						rec.setadd("dtypes_round_tripped", dt_base(dtname))
					if res is None or res[0] == "refusal":
						rec.setadd("dtypes_encoded", dt_base(dtname))
	elif what == "ctrl":
		configs = [("\x00A", ""), ("A\x00", "N"), ("\x01\x02", "\x03"),
			("\t\n", "\r"), ("\x7fA", "\x1f"), ("\x1b[", ""),
			("AC\x00T", "")]
		for a, i in configs:
			for L in range(1, 5):
				for tup in itertools.product(a + i, repeat=L):
					case_ohe("ohe-ctrl", {"kind": "ohe", "alphabet": a,
						"ignore": i, "dtype": "int8", "s": "".join(tup)}, rec)
		rec.mark_exhaustive("ohe-ctrl")
	elif what == "forms":
		# alphabet passed as a str / tuple instead of a list: the statement is
		# silent about containers -> a raise is a refusal, a result is judged
		for a, i in (("ACGT", "N"), ("ab", "c")):
			for form in ("str", "tuple"):
				al = a if form == "str" else tuple(a)
				for s in ("".join(t) for t in itertools.product(a + i,
					repeat=3)):
					p = {"kind": "forms", "alphabet": a, "ignore": i,
						"form": form, "s": s}
					case_forms("ohe-forms", p, rec)


def case_forms(cls, params, rec):
	utils = get_utils(False, rec)
	a, i, s = params["alphabet"], params["ignore"], params["s"]
	al = a if params["form"] == "str" else tuple(a)
	st, x = gen.call(utils.one_hot_encode, s, alphabet=al, ignore=list(i))
	if st == "raise":
		rec.refusal(cls, params, "one_hot_encode(alphabet=%s): %s" % (
			params["form"], repr(x)[:50]))
		return
	if not isinstance(x, torch.Tensor) or x.tolist() != expected_rows(s, a):
		rec.violation(cls, params, _wit(a, i, "int8", s, what="encoding with "
			"alphabet given as %s differs" % params["form"],
			got=str(x.tolist())[:300]), mech="C15/encode-wrong")
		return
	st, c = gen.call(utils.characters, x, alphabet=al, allow_N=True)
	if st == "raise":
		rec.refusal(cls, params, "characters(alphabet=%s): %s" % (
			params["form"], repr(c)[:50]))
	elif c != with_N(s, i):
		rec.violation(cls, params, _wit(a, i, "int8", s, what="round trip "
			"with alphabet given as %s" % params["form"], got=repr(c)),
			mech="C15/roundtrip-mismatch")
	else:
		rec.held(cls, params, nontrivial=ohe_nontrivial(s, i))


def run_ohe_long(unit, rec):
	bc = bool(unit.get("boundscheck"))
	utils = get_utils(bc, rec)
	cls = "ohe-long" + ("-boundscheck" if bc else "")
	if utils is None:
		rec.inconclusive(cls, {"unit": unit["k"]}, "bounds checking not active")
		return
	r = gen.pyrng(ID, unit["seed"], "long", unit["k"])
	configs = make_configs("quick", unit["seed"])
	for it in range(unit["n"]):
		a, i = r.choice(configs)
		dtname = r.choice(MAIN_DT)
		L = r.choice([7, 8, 15, 16, 17, 63, 64, 65, 127, 128, 129, 255, 256,
			257, 1000, r.randint(7, unit["Lmax"]), unit["Lmax"]])
		mode = r.random()
		if mode < 0.15 and i:
			s = gen.rand_seq(r, L, i)                 # only ignored
		elif mode < 0.3:
			s = gen.rand_seq(r, L, a)                 # none ignored
		else:
			s = gen.rand_seq(r, L, a + i)
		p = {"kind": "ohe", "alphabet": a, "ignore": i, "dtype": dtname,
			"s": s}
		if bc:
			p["boundscheck"] = True
		res = ohe_check(utils, a, i, dtname, s, boundscheck=bc, fast=True)
		if res is None:
			# held: keep the evidence small (the string is regenerated from
			# the seed; violations carry the full string)
			h = dict(p, s_prefix=s[:40], L=L, unit_k=unit["k"], it=it)
			del h["s"]
			rec.held(cls, h, nontrivial=ohe_nontrivial(s, i))
			rec.count("ohe_roundtrips")
			rec.maxv("max_string_length", L)
			if bc:
				rec.count("boundscheck_cases")
			if any(ch in i for ch in s):
				rec.count("ohe_with_ignored")
		else:
			report(rec, cls, p, res)
		# one illegal character in a long string
		bad = illegal_chars(a, i)
		for pos in (0, L // 2, L - 1):
			ch = r.choice(bad)
			res = illegal_check(utils, a, i, dtname, s, pos, ch,
				boundscheck=bc)
			if res is None:
				rec.count("illegal_rejected")
				rec.bulk_held("ohe-illegal" + ("-boundscheck" if bc else ""),
					1, 1)
			else:
				report(rec, "ohe-illegal" + ("-boundscheck" if bc else ""),
					dict(p, kind="illegal", pos=pos, ch=ch), res)


# --------------------------------------------------------------------------
# reverse_complement
# --------------------------------------------------------------------------

MAPS = {
	"dna": [["A", "T"], ["C", "G"], ["G", "C"], ["T", "A"]],
	"rna": [["A", "U"], ["C", "G"], ["G", "C"], ["U", "A"]],
	"atcg": [["A", "T"], ["T", "A"], ["C", "G"], ["G", "C"]],
	"cgat": [["C", "G"], ["G", "C"], ["A", "T"], ["T", "A"]],
	"gatc": [["G", "C"], ["A", "T"], ["T", "A"], ["C", "G"]],
	"iupac6": [["A", "T"], ["C", "G"], ["G", "C"], ["T", "A"], ["W", "W"],
		["S", "S"]],
	"ry": [["R", "Y"], ["Y", "R"]],
	"lower": [["a", "t"], ["c", "g"], ["g", "c"], ["t", "a"]],
}
RC_DT = ["int8", "float32", "float64", "int64", "uint8", "bool", "float16",
	"int32", "int16"]


def own_rc(s, comp):
	out = []
	for ch in reversed(s):
		out.append(comp[ch] if ch in comp else "N")
	return "".join(out)


def own_encode(s, keys, dtname):
	a = numpy.zeros((len(keys), len(s)), dtype=numpy.int8)
	for p, ch in enumerate(s):
		if ch in keys:
			a[keys.index(ch), p] = 1
	return torch.from_numpy(a).type(getattr(torch, dtname))


def own_decode(t, keys):
	"""-> string with 'N' for all-zero columns, or None if some column is not
	a unit vector / zero vector."""
	if not isinstance(t, torch.Tensor) or t.ndim != 2 or t.shape[0] != len(
		keys):
		return None
	cols = list(zip(*t.tolist())) if t.shape[1] else []
	out = []
	for col in cols:
		nz = [a for a, v in enumerate(col) if v != 0]
		if not nz:
			out.append("N")
		elif len(nz) == 1 and col[nz[0]] == 1:
			out.append(keys[nz[0]])
		else:
			return None
	return "".join(out)


def rc_check(utils, mapname, s, dtname, composed=False, pairs=None,
	cmap_obj=None, use_default=None):
	"""-> None | (mech, detail).  pairs: explicit map (mapname 'custom');
	cmap_obj: the dict object to hand to the package (call histories on one
	caller-owned dict); use_default: force / forbid the default argument."""
	pairs = pairs if pairs is not None else MAPS[mapname]
	cmap = {k: v for k, v in pairs}     # insertion order = tensor row order
	keys = [k for k, v in pairs]
	if use_default is None:
		use_default = mapname == "dna" and len(s) % 2 == 0
	kw = {} if use_default else {"complement_map": cmap if cmap_obj is None
		else cmap_obj}
	want = own_rc(s, cmap)
	w = {"complement_map": pairs, "sequence": s, "dtype": dtname}
	st, got = gen.call(utils.reverse_complement, s, **kw)
	if st == "raise":
		return ("C15/revcomp-raised", dict(w, what="string form raised",
			error=repr(got)[:300]))
	if not isinstance(got, str) or got != want:
		return ("C15/revcomp-string-wrong", dict(w, what="string form is not "
			"reversal + complement", got=repr(got), expected=want))
	st, back = gen.call(utils.reverse_complement, got, **kw)
	if st == "raise" or back != s:
		return ("C15/revcomp-not-involution", dict(w, what="rc(rc(s)) != s "
			"(string form)", got=repr(back)[:300]))
	x = gen.relayout(own_encode(s, keys, dtname), gen.layout_of((s, dtname,
		keys)))[0]
	st, y = gen.call(utils.reverse_complement, x, **kw)
	if st == "raise":
		return ("C15/revcomp-raised", dict(w, what="tensor form raised",
			error=repr(y)[:300]))
	dec = own_decode(y, keys)
	if dec is None or tuple(y.shape) != tuple(x.shape):
		return ("C15/revcomp-tensor-invalid", dict(w, what="tensor form is "
			"not a one-hot encoding of the same shape",
			got=str(y.tolist())[:300] if isinstance(y, torch.Tensor)
			else repr(y)[:100]))
	if dec != got:
		return ("C15/revcomp-forms-disagree", dict(w, what="decoded tensor "
			"form != string form", tensor_form=dec, string_form=got))
	st, z = gen.call(utils.reverse_complement, y, **kw)
	if st == "raise" or not isinstance(z, torch.Tensor) or \
		z.shape != x.shape or z.tolist() != x.tolist():
		return ("C15/revcomp-not-involution", dict(w, what="rc(rc(X)) != X "
			"(tensor form)", got=str(z.tolist())[:300] if isinstance(z,
			torch.Tensor) else repr(z)[:200]))
	if composed and s:
		# the package's own converters around the tensor form (the empty
		# string is judged in class ohe-empty)
		err = None
		st, e = gen.call(utils.one_hot_encode, s, alphabet=keys, ignore=["N"])
		if st == "raise":
			err = e
		else:
			st, y2 = gen.call(utils.reverse_complement, e, **kw)
			if st == "raise":
				err = y2
			else:
				st, c = gen.call(utils.characters, y2, alphabet=keys,
					allow_N=True)
				if st == "raise":
					err = c
		if err is not None:
			return ("C15/revcomp-raised", dict(w, what="characters(rc("
				"one_hot_encode(s))) raised", error=repr(err)[:300]))
		if c != got:
			return ("C15/revcomp-forms-disagree", dict(w, what="characters("
				"rc(one_hot_encode(s))) != rc(s)", tensor_form=repr(c),
				string_form=got))
	return None


def involutions(n):
	"""All involutions of range(n) as lists."""
	def rec_(free, cur):
		if not free:
			yield dict(cur)
			return
		a = free[0]
		rest = free[1:]
		for x in rec_(rest, cur + [(a, a)]):
			yield x
		for j, b in enumerate(rest):
			for x in rec_(rest[:j] + rest[j + 1:], cur + [(a, b), (b, a)]):
				yield x
	for d in rec_(list(range(n)), []):
		yield [d[i] for i in range(n)]


INV_KEYS = "ACGTWSRY"


def case_rchist(cls, params, rec):
	"""A call history on ONE complement map object (the package default or a
	caller-owned dict): calls that are rejected or served come first, then
	the full string/tensor agreement check must still pass with that same
	object."""
	utils = get_utils(False, rec)
	pairs = params["pairs"]
	keys = [k for k, v in pairs]
	default = params["default"]
	cmap_obj = None if default else {k: v for k, v in pairs}
	kw = {} if default else {"complement_map": cmap_obj}
	outcomes = []
	for op in params["ops"]:
		if op[0] == "str":
			st, v = gen.call(utils.reverse_complement, op[1], **dict(kw,
				**op[2]))
		else:
			x = torch.zeros((op[1], op[2]), dtype=torch.int8)
			if op[1] and op[2]:
				x[0] = 1
			st, v = gen.call(utils.reverse_complement, x, **kw)
		outcomes.append(st)
	rec.count("rc_history_prior_raises", outcomes.count("raise"))
	res = None
	for s_ in params["probe"]:
		res = rc_check(utils, "custom", s_, params["dtype"], composed=True,
			pairs=pairs, cmap_obj=cmap_obj, use_default=default)
		if res is not None:
			break
	if res is None:
		rec.count("rc_histories")
		rec.held(cls, params, nontrivial=outcomes.count("raise") > 0)
	else:
		rec.violation(cls, params, dict(res[1], prior_calls=[list(map(str, o))
			for o in params["ops"]], prior_outcomes=outcomes,
			map_object="package default" if default else "caller-owned dict "
			"reused across the calls"), mech=res[0] + "-after-history")


def case_rc(cls, params, rec):
	utils = get_utils(False, rec)
	res = rc_check(utils, params["map"], params["s"], params["dtype"],
		composed=params.get("composed", False), pairs=params.get("pairs"))
	s = params["s"]
	cmap = dict(params.get("pairs") or MAPS[params["map"]])
	if res is None:
		rec.held(cls, params, nontrivial=own_rc(s, cmap) != s)
	else:
		rec.violation(cls, params, res[1], mech=res[0])


def case_rct(cls, params, rec):
	"""Tensor with distinct cell values: out[c, p] == in[comp(c), L-1-p]."""
	utils = get_utils(False, rec)
	pairs = params.get("pairs") or MAPS[params["map"]]
	cmap = {k: v for k, v in pairs}
	keys = [k for k, v in pairs]
	A, L = len(keys), params["L"]
	r = gen.nprng(ID, "rct", params["map"], L, params["vseed"])
	base = numpy.arange(A * L).reshape(A, L) + 1
	if params["vseed"]:
		base = r.permutation(A * L).reshape(A, L) + 1
	x = torch.from_numpy(base).type(getattr(torch, params["dtype"]))
	x = gen.relayout(x, gen.layout_of(params))[0]
	kw = {} if params["map"] == "dna" else {"complement_map": cmap}
	st, y = gen.call(utils.reverse_complement, x, **kw)
	w = {"complement_map": pairs, "L": L, "dtype": params["dtype"],
		"X": "arange(A*L).reshape(A,L)+1" if not params["vseed"] else
		"seeded permutation"}
	if st == "raise":
		rec.violation(cls, params, dict(w, what="tensor form raised",
			error=repr(y)[:300]), mech="C15/revcomp-raised")
		return
	exp = numpy.zeros_like(base)
	for a, k in enumerate(keys):
		src = keys.index(cmap[k])
		for p in range(L):
			exp[a, p] = base[src, L - 1 - p]
	if not isinstance(y, torch.Tensor) or tuple(y.shape) != (A, L) or \
		not numpy.array_equal(y.to(torch.float64).numpy(),
			exp.astype(numpy.float64)):
		rec.violation(cls, params, dict(w, what="out[c,p] != in[comp(c), "
			"L-1-p]", got=str(y.tolist())[:300] if isinstance(y, torch.Tensor)
			else repr(y)[:100], expected=str(exp.tolist())[:300]),
			mech="C15/revcomp-tensor-wrong")
		return
	st, z = gen.call(utils.reverse_complement, y, **kw)
	if st == "raise" or not torch.equal(z, x):
		rec.violation(cls, params, dict(w, what="rc(rc(X)) != X"),
			mech="C15/revcomp-not-involution")
		return
	rec.count("rc_tensors")
	rec.held(cls, params, nontrivial=L >= 2)


def run_rc(unit, rec):
	utils = get_utils(False, rec)
	what = unit["what"]
	if what == "exh":
		mapname, L = unit["map"], unit["L"]
		cmap = dict(MAPS[mapname])
		symbols = "".join(k for k, v in MAPS[mapname]) + "N"
		part, nparts = unit.get("part", 0), unit.get("nparts", 1)
		cls = "rc-exh"
		n = nt = 0
		sample = None
		for idx, tup in enumerate(itertools.product(symbols, repeat=L)):
			if idx % nparts != part:
				continue
			s = "".join(tup)
			dtname = RC_DT[(idx // nparts + L) % len(RC_DT)]
			composed = mapname == "dna" or idx % 3 == 0
			res = rc_check(utils, mapname, s, dtname, composed=composed)
			p = {"kind": "rc", "map": mapname, "s": s, "dtype": dtname,
				"composed": composed}
			if res is None:
				n += 1
				nt += own_rc(s, cmap) != s
				sample = p
			else:
				rec.violation(cls, p, res[1], mech=res[0])
		if n:
			rec.bulk_held(cls, n, nt, sample=sample)
		rec.count("rc_strings", n)
		rec.count("rc_tensors", n)
		rec.setadd("rc_maps", mapname)
		rec.maxv("rc_max_exhaustive_length", L)
		rec.mark_exhaustive(cls)
	elif what == "involutions":
		# every complement map on n characters (every involution of the row
		# order), every string up to length 3 over it + N
		n = unit["n"]
		keys = INV_KEYS[:n]
		cls = "rc-all-maps"
		cnt = nt = 0
		sample = None
		for k, inv in enumerate(involutions(n)):
			pairs = [[keys[i], keys[inv[i]]] for i in range(n)]
			cmap = dict(pairs)
			rec.count("rc_maps_enumerated")
			for L in range(0, unit["Lmax"] + 1):
				for idx, tup in enumerate(itertools.product(keys + "N",
					repeat=L)):
					s = "".join(tup)
					dtname = RC_DT[(idx + k + L) % len(RC_DT)]
					p = {"kind": "rc", "map": "custom", "pairs": pairs, "s": s,
						"dtype": dtname, "composed": idx % 4 == 0}
					res = rc_check(utils, "custom", s, dtname,
						composed=p["composed"], pairs=pairs)
					if res is None:
						cnt += 1
						nt += own_rc(s, cmap) != s
						sample = p
					else:
						rec.violation(cls, p, res[1], mech=res[0])
			for L in (1, 2, 5):
				case_rct("rc-all-maps-values", {"kind": "rct", "map": "custom",
					"pairs": pairs, "L": L, "vseed": k % 2,
					"dtype": ["int64", "float32", "float64"][k % 3]}, rec)
		if cnt:
			rec.bulk_held(cls, cnt, nt, sample=sample)
		rec.count("rc_strings", cnt)
		rec.mark_exhaustive(cls)
	elif what == "history":
		r = gen.pyrng(ID, unit["seed"], "rchist", unit["k"])
		for it in range(unit["n"]):
			if it % 2 == 0:
				pairs, default = MAPS["dna"], it % 4 == 0
			else:
				n = r.randint(2, 6)
				keys = INV_KEYS[:n]
				inv = r.choice(list(involutions(n)))
				pairs = [[keys[i], keys[inv[i]]] for i in range(n)]
				default = False
			keys = "".join(k for k, v in pairs)
			foreign = [c for c in "UZXBacgtn*- " if c not in keys]
			ops = []
			for j in range(r.randint(1, 3)):
				q = r.random()
				body = gen.rand_seq(r, r.randint(0, 6), keys + "N")
				if q < .45:
					pos = r.randint(0, len(body))
					ops.append(["str", body[:pos] + r.choice(foreign) +
						body[pos:], {"allow_N": r.random() < .7}])
				elif q < .6:
					ops.append(["str", body + "N", {"allow_N": False}])
				elif q < .8:
					ops.append(["str", body, {}])
				else:
					ops.append(["tensor", r.choice([len(keys), len(keys) + 1,
						max(1, len(keys) - 1)]), r.randint(0, 4)])
			probe = [gen.rand_seq(r, r.randint(1, 8), keys + "N")
				for _ in range(2)] + [keys + "N"]
			case_rchist("rc-history", {"kind": "rchist", "pairs": pairs,
				"default": default, "ops": ops, "probe": probe,
				"dtype": r.choice(RC_DT)}, rec)
	elif what == "tensor":
		k = 0
		for mapname in MAPS:
			for L in list(range(0, 9)) + [16, 33, 100]:
				for vseed in (0, 1 + unit["seed"]):
					k += 1
					case_rct("rc-tensor-values", {"kind": "rct",
						"map": mapname, "L": L, "vseed": vseed,
						"dtype": ["int64", "float32", "float64", "int32",
							"int16"][k % 5]}, rec)
	else:
		r = gen.pyrng(ID, unit["seed"], "rclong", unit["k"])
		for it in range(unit["n"]):
			mapname = r.choice(list(MAPS))
			symbols = "".join(k for k, v in MAPS[mapname])
			L = r.choice([7, 8, 9, 31, 64, 257, r.randint(7, unit["Lmax"])])
			s = gen.rand_seq(r, L, symbols + ("N" if r.random() < .7 else ""))
			case_rc("rc-long", {"kind": "rc", "map": mapname, "s": s,
				"dtype": r.choice(RC_DT), "composed": True}, rec)
			rec.count("rc_strings")
			rec.count("rc_tensors")


# --------------------------------------------------------------------------
# chunk / unchunk
# --------------------------------------------------------------------------

P = 100000          # x[i][row..., p] = (i * R + flat_row) * P + p ; L < P
CH_DT = ["int64", "float32", "float64", "int32"]


def n_complete(L, size, step):
	"""Number of complete chunks: starts 0, step, 2*step, ... with
	start + size <= L."""
	return len(range(0, L - size + 1, step)) if L >= size else 0


def build_seqs(lengths, lead):
	R = 1
	for d in lead:
		R *= d
	out = []
	for i, L in enumerate(lengths):
		rows = (i * R + numpy.arange(R, dtype=numpy.int64)) * P
		a = rows[:, None] + numpy.arange(L, dtype=numpy.int64)[None, :]
		out.append(a.reshape(tuple(lead) + (L,)))
	return out


def own_chunks(a, size, step):
	L = a.shape[-1]
	k = n_complete(L, size, step)
	if k == 0:
		return numpy.zeros((0,) + a.shape[:-1] + (size,), dtype=a.dtype)
	return numpy.stack([a[..., j * step:j * step + size] for j in range(k)])


def positions_of(g):
	"""First row of a result as position indices (for the witness)."""
	g = numpy.asarray(g)
	if g.ndim < 1 or g.size == 0:
		return []
	row = g.reshape(-1, g.shape[-1])[0]
	return [int(v) % P for v in row[:60].tolist()]


def is_subrange(g, e):
	"""g equals e[..., o:o+n] for some offset o, n = g.shape[-1] < e.shape[-1]"""
	if g.ndim != e.ndim or g.shape[:-1] != e.shape[:-1]:
		return False
	n, m = g.shape[-1], e.shape[-1]
	if n >= m:
		return False
	for o in range(0, m - n + 1):
		if numpy.array_equal(g, e[..., o:o + n]):
			return True
	return False


def chunk_call(cls, params, rec):
	"""One chunk()/unchunk() call; every sequence of it is one case.  With
	params['judge'] = i only sequence i is reported (replay of one case)."""
	from tangermeme import utils
	size, overlap = params["size"], params["overlap"]
	lengths = list(params["lengths"])
	lead = list(params["lead"])
	dtname = params.get("dtype", "int64")
	xform, lform = params.get("xform", "tensor"), params.get("lform", "list")
	step = size - overlap
	B = len(lengths)
	judge = params.get("judge")
	todo = [i for i in range(B) if judge is None or i == judge]
	done = {}
	# sequences of one call need not share a dtype (a one-hot int tensor next
	# to a float PWM): the first one narrow, the later ones wide
	mixed = params.get("mixed_dtypes")
	if mixed is None:
		mixed = B >= 2 and len(lead) == 1 and gen.pyrng("C15mixed", repr(
			sorted((k_, repr(v_)) for k_, v_ in params.items() if k_ not in (
			"judge", "mixed_dtypes")))).randrange(5) == 0
	params = dict(params, mixed_dtypes=bool(mixed))

	def cparams(i):
		p = dict(params)
		p["judge"] = i
		return p

	def finish():
		for i in todo:
			kind, a, b = done[i]
			k = ks[i]
			if kind in ("held", "violation"):
				kcls = ("unchunk_k1_overlap" if k == 1 and overlap > 0 else
					"unchunk_k1_no_overlap" if k == 1 else
					"unchunk_k2" if k == 2 else "unchunk_k3" if k == 3 else
					"unchunk_many")
				rec.count(kcls)
				if overlap % 2 == 1:
					rec.count("unchunk_odd_overlap")
				if len(lead) == 2:
					rec.count("unchunk_3lead")
				if B >= 2:
					rec.count("unchunk_multi_seq")
				if lengths[i] > covs[i]:
					rec.count("unchunk_incomplete_tail")
				rec.maxv("max_chunks_per_sequence", k)
			if kind == "held":
				rec.held(cls, cparams(i), nontrivial=not (k == 1 and
					overlap == 0 and B == 1))
			elif kind == "violation":
				rec.violation(cls, cparams(i), b, mech=a)
			elif kind == "refusal":
				rec.refusal(cls, cparams(i), a)
			else:
				rec.inconclusive(cls, cparams(i), a)

	arrays = build_seqs(lengths, lead)
	ks = [n_complete(L, size, step) for L in lengths]
	covs = [size + (k - 1) * step if k else 0 for k in ks]
	dt = getattr(torch, dtname)
	xs = [torch.from_numpy(a).type(dt) for a in arrays]
	if mixed and max(int(a.max()) if a.size else 0 for a in arrays) < 2 ** 31:
		# the wide sequences carry non-integer values (+ 0.5, exact)
		arrays = [a if i == 0 else a.astype(numpy.float64) + 0.5
			for i, a in enumerate(arrays)]
		xs = [torch.from_numpy(a).type(torch.int32 if i == 0 else
			torch.float64) for i, a in enumerate(arrays)]
		rec.count("chunk_mixed_dtype_calls")
	# same values in other memory layouts (views into larger storages)
	lay = gen.layout_of(params)
	xs = [gen.relayout(x, lay)[0] for x in xs]
	rec.setadd("layouts", lay)
	own = [own_chunks(a, size, step) for a in arrays]
	E = numpy.concatenate(own, axis=0)
	starts = numpy.concatenate([[0], numpy.cumsum(ks)]).tolist()
	wit = {"size": size, "overlap": overlap, "lengths": lengths,
		"complete_chunks": ks, "leading_dims_of_a_sequence": lead,
		"dtype": dtname, "values": "x_i[rows..., p] = (i*R + flat_row)*%d + "
		"p" % P, "call": "unchunk(chunk([x_0..], size=%d, overlap=%d), "
		"lengths=%s, overlap=%d)" % (size, overlap, lengths, overlap)}
	Yin = None
	if len(lead) == 1:
		st, Y = gen.call(utils.chunk, xs, size=size, overlap=overlap)
		if st == "raise":
			short = any(k == 0 for k in ks)
			for i in todo:
				if short:
					done[i] = ("refusal", "chunk raised, a sequence is shorter "
						"than size: " + repr(Y)[:40], None)
				else:
					done[i] = ("violation", "C15/chunk-raised", dict(wit,
						what="chunk raised", error=repr(Y)[:300]))
			finish()
			return
		ok = isinstance(Y, torch.Tensor) and tuple(Y.shape) == E.shape
		if ok:
			Yn = Y.detach().to(torch.float64).numpy()
			for i in todo:
				if not numpy.array_equal(Yn[starts[i]:starts[i + 1]],
					own[i].astype(numpy.float64)):
					j = [numpy.array_equal(Yn[starts[i] + j], own[i][j].astype(
						numpy.float64)) for j in range(ks[i])].index(False)
					done[i] = ("violation", "C15/chunk-mismatch", dict(wit,
						what="chunk %d of sequence %d is not x[:, %d:%d]" % (j,
						i, j * step, j * step + size), sequence=i,
						got_positions=positions_of(Yn[starts[i] + j])))
			Yin = Y
		else:
			for i in todo:
				done[i] = ("violation", "C15/chunk-mismatch", dict(wit,
					what="chunk returned shape %s, expected %s" % (
					tuple(getattr(Y, "shape", ())), E.shape)))
		if any(k == 0 for k in ks):
			# chunk accepted a too-short sequence: nothing more is promised
			for i in todo:
				done.setdefault(i, ("held", None, None))
			finish()
			return
	if Yin is None:
		Yin = torch.from_numpy(E).type(dt)
	if any(k == 0 for k in ks):
		for i in todo:
			done.setdefault(i, ("refusal", "zero complete chunks", None))
		finish()
		return
	remaining = [i for i in todo if i not in done]
	if not remaining:
		finish()
		return
	Ylay = gen.layout_of(params, "chunks")
	rec.setadd("layouts_unchunk_input", Ylay)
	if Ylay != "plain":
		rec.count("nonplain_layout_cases")
	Yin = gen.relayout(Yin, Ylay)[0]
	Xarg = Yin.numpy() if xform == "numpy" else Yin
	if lform == "none":
		kw = {"overlap": overlap}
	else:
		larg = (lengths if lform == "list" else numpy.array(lengths)
			if lform == "numpy" else torch.tensor(lengths))
		kw = {"lengths": larg, "overlap": overlap}
	st, out = gen.call(utils.unchunk, Xarg, **kw)
	if st == "raise":
		for i in remaining:
			if lform == "none" or xform == "numpy":
				done[i] = ("refusal", "unchunk(X as %s, lengths as %s) "
					"raised: %s" % (xform, lform, repr(out)[:50]), None)
			else:
				done[i] = ("violation", "C15/unchunk-raised", dict(wit,
					what="unchunk raised", error=repr(out)[:300]))
		finish()
		return
	if lform == "none" and isinstance(out, torch.Tensor):
		out = [out]
	if not isinstance(out, (list, tuple)) or len(out) != B:
		for i in remaining:
			done[i] = ("violation", "C15/unchunk-structure", dict(wit,
				what="unchunk returned %s of length %s, expected a list of %d "
				"tensors" % (type(out).__name__, len(out) if hasattr(out,
				"__len__") else "?", B)))
		finish()
		return
	for i in remaining:
		g = out[i]
		if not isinstance(g, torch.Tensor):
			done[i] = ("violation", "C15/unchunk-structure", dict(wit,
				what="element %d is a %s" % (i, type(g).__name__)))
			continue
		g = g.detach().to(torch.float64).numpy()
		e = arrays[i][..., :covs[i]].astype(numpy.float64)
		w = dict(wit, sequence=i, length=lengths[i], chunks_of_sequence=ks[i],
			expected_shape=list(e.shape), got_shape=list(g.shape),
			expected_positions="0..%d" % (covs[i] - 1),
			got_positions_first_row=positions_of(g))
		if g.shape != e.shape:
			if ks[i] == 1 and overlap > 0 and is_subrange(g, e):
				done[i] = ("violation", "C15/unchunk-single-chunk", dict(w,
					what="a sequence with exactly one complete chunk loses "
					"%d edge position(s) of that chunk" % (e.shape[-1] -
					g.shape[-1])))
			else:
				done[i] = ("violation", "C15/unchunk-length", dict(w,
					what="result has another shape than the prefix covered by "
					"complete chunks"))
		elif not numpy.array_equal(g, e):
			bad = numpy.argwhere(g != e)[0].tolist()
			done[i] = ("violation", "C15/unchunk-values", dict(w,
				what="right shape, wrong value", first_bad_index=bad,
				got=float(g[tuple(bad)]), expected=float(e[tuple(bad)])))
		else:
			done[i] = ("held", None, None)
	finish()


def k_lengths(size, step, k, r):
	return size + (k - 1) * step + r


def run_chunk_grid(unit, rec):
	size = unit["size"]
	tier = unit["tier"]
	seed = unit["seed"]
	r = gen.pyrng(ID, seed, "grid", size)
	n = 0
	for overlap in range(0, size):
		step = size - overlap
		if tier == "quick":
			kset = [1, 2, 3, 4, 7]
			rset = sorted({0, 1, step // 2, step - 1} & set(range(step)))
		else:
			kset = [1, 2, 3, 4, 5, 6, 9, 16]
			rset = list(range(step))
		# --- one sequence, 2 leading dims (chunks, rows)
		for k in kset:
			for rem in rset:
				n += 1
				chunk_call("chunk-single", {"kind": "chunk", "size": size,
					"overlap": overlap, "lengths": [k_lengths(size, step, k,
					rem)], "lead": [[1], [4], [3], [2]][n % 4],
					"dtype": CH_DT[(n // 3) % 4],
					"lform": ["list", "numpy", "tensor"][n % 3]}, rec)
		# --- several sequences in one call
		profiles = [(1, 1), (1, 2), (2, 1), (1, 3), (3, 1), (2, 3), (1, 2, 3),
			(3, 1, 2), (2, 1, 1), (1, 1, 1), (5, 1, 2), (1, 2, 3, 4),
			(4, 1, 1, 2), (1, 1, 1, 1), (2, 2, 2, 2), (3, 7, 1, 2)]
		if tier != "quick":
			profiles += list(itertools.product((1, 2, 3, 5), repeat=2))
			profiles += list(itertools.product((1, 2, 3), repeat=3))
			profiles += [tuple(r.choice((1, 1, 2, 3, 4, 8)) for _ in range(4))
				for _ in range(6)]
		for prof in profiles:
			n += 1
			lengths = [k_lengths(size, step, k, r.randrange(step))
				for k in prof]
			chunk_call("chunk-multi", {"kind": "chunk", "size": size,
				"overlap": overlap, "lengths": lengths,
				"lead": [[4], [1], [2], [5]][n % 4],
				"dtype": CH_DT[(n // 3) % 4],
				"lform": ["list", "numpy", "tensor"][n % 3]}, rec)
		# --- 3 leading dims for the unchunk input (chunks, d1, d2)
		profiles3 = [(1,), (2,), (3,), (6,), (1, 2), (3, 1), (1, 1, 4),
			(2, 1, 3, 1)]
		if tier != "quick":
			profiles3 += [(4,), (5,), (2, 2), (1, 3, 1), (3, 2, 1),
				(1, 2, 3, 4)]
		for prof in profiles3:
			n += 1
			lengths = [k_lengths(size, step, k, r.randrange(step))
				for k in prof]
			chunk_call("chunk-3lead", {"kind": "chunk", "size": size,
				"overlap": overlap, "lengths": lengths,
				"lead": [[2, 3], [1, 4], [3, 1], [4, 2]][n % 4],
				"dtype": CH_DT[(n // 3) % 4],
				"lform": ["list", "numpy", "tensor"][n % 3]}, rec)
	rec.setadd("chunk_sizes", size)
	rec.mark_exhaustive("chunk-single")


def run_chunk_misc(unit, rec):
	what = unit["what"]
	r = gen.pyrng(ID, unit["seed"], "chunkmisc", what, unit.get("k", 0))
	if what == "rand":
		for it in range(unit["n"]):
			size = r.choice([1, 2, 3, 7, 16, 33, 40, 64, 100, 128, 1000,
				r.randint(1, 2000)])
			overlap = r.choice([0, 1, size // 2, size - 1, max(0, size - 2),
				r.randrange(size)])
			overlap = min(max(overlap, 0), size - 1)
			step = size - overlap
			B = r.randint(1, 4)
			lengths = []
			for b in range(B):
				k = r.choice([1, 1, 2, 3, r.randint(4, 40), r.randint(4, 400)])
				L = k_lengths(size, step, k, r.randrange(step))
				while L >= P:
					k = max(1, k // 2)
					L = k_lengths(size, step, k, 0)
				lengths.append(L)
			lead = r.choice([[4], [1], [2, 3], [7], [1, 1]])
			chunk_call("chunk-rand", {"kind": "chunk", "size": size,
				"overlap": overlap, "lengths": lengths, "lead": lead,
				"dtype": r.choice(CH_DT),
				"xform": r.choice(["tensor", "tensor", "numpy"]),
				"lform": r.choice(["list", "numpy", "tensor"])}, rec)
	elif what == "short":
		for size in (1, 2, 5, 10, 40):
			for overlap in sorted({0, 1, size // 2, size - 1} & set(range(
				size))):
				for lengths in ([size - 1], [size + 3, size - 1],
					[size - 1, 2 * size], [max(0, size - 3)]):
					if min(lengths) < 1:
						continue
					chunk_call("chunk-short", {"kind": "chunk", "size": size,
						"overlap": overlap, "lengths": lengths,
						"lead": [4]}, rec)
	elif what == "nolengths":
		for size in (1, 4, 10, 33):
			for overlap in sorted({0, 1, size // 2, size - 1} & set(range(
				size))):
				for k in (1, 2, 3, 6):
					chunk_call("chunk-nolengths", {"kind": "chunk",
						"size": size, "overlap": overlap, "lengths": [
						k_lengths(size, size - overlap, k, 0)], "lead": [4],
						"lform": "none"}, rec)
	elif what == "pipeline":
		for it in range(unit["n"]):
			case_pipeline("chunk-pipeline", {"kind": "pipeline",
				"seed": unit["seed"], "k": unit.get("k", 0), "it": it}, rec)
	elif what == "huge":
		for it in range(unit["n"]):
			size = r.choice([40, 50, 64])
			overlap = r.choice([0, size // 2])
			step = size - overlap
			# length - size just above 2**24 and one short of / exactly on /
			# one past a multiple of the step
			kk = (2 ** 24) // step + r.randint(1, 50)
			L0 = size + kk * step + r.choice([-1, 0, 1, step - 1])
			case_huge("chunk-huge", {"kind": "huge", "size": size,
				"overlap": overlap, "lengths": [L0, size + 3 * step + 1]}, rec)


def case_huge(cls, params, rec):
	"""A sequence of more than 2**24 positions followed by a short one (chunk
	counts and offsets past the exactness of single precision)."""
	from tangermeme import utils
	size, overlap = params["size"], params["overlap"]
	step = size - overlap
	lengths = params["lengths"]
	xs = [(torch.arange(L, dtype=torch.int64) * (7 + 2 * i) % 251).type(
		torch.uint8)[None] for i, L in enumerate(lengths)]
	wit = {"size": size, "overlap": overlap, "lengths": lengths,
		"values": "x_i[0, p] = p * (7 + 2i) mod 251 (uint8)"}
	st, Y = gen.call(utils.chunk, xs, size=size, overlap=overlap)
	if st == "raise":
		rec.violation(cls, params, dict(wit, what="chunk raised",
			error=repr(Y)[:300]), mech="C15/chunk-raised")
		return
	st, out = gen.call(utils.unchunk, Y, lengths=lengths, overlap=overlap)
	if st == "raise":
		rec.violation(cls, params, dict(wit, what="unchunk raised",
			error=repr(out)[:300]), mech="C15/unchunk-raised")
		return
	if not isinstance(out, (list, tuple)) or len(out) != len(lengths):
		rec.violation(cls, params, dict(wit, what="unchunk returned %s" %
			type(out).__name__), mech="C15/unchunk-structure")
		return
	for i, (x, g, L) in enumerate(zip(xs, out, lengths)):
		cov = size + (n_complete(L, size, step) - 1) * step
		if tuple(g.shape) != (1, cov) or not torch.equal(g.type(torch.uint8),
			x[:, :cov]):
			bad = None
			if tuple(g.shape) == (1, cov):
				bad = int((g.type(torch.uint8) != x[:, :cov]).nonzero()[0][1])
			rec.violation(cls, params, dict(wit, what="sequence %d: unchunk("
				"chunk(x)) has shape %s, expected (1, %d)%s" % (i,
				tuple(g.shape), cov, "" if bad is None else "; first wrong "
				"position %d" % bad), sequence=i),
				mech="C15/roundtrip-mismatch-huge")
			return
	rec.count("unchunk_huge_calls")
	rec.held(cls, params, nontrivial=True)


def case_pipeline(cls, params, rec):
	"""strings -> one_hot_encode -> chunk -> unchunk -> characters must give
	the covered prefix of every string (N for ignored)."""
	from tangermeme import utils
	r = gen.pyrng(ID, params["seed"], "pipeline", params["k"], params["it"])
	size = r.choice([1, 2, 3, 5, 8, 13, 21, 40])
	overlap = r.randrange(size)
	step = size - overlap
	B = r.randint(1, 4)
	seqs = []
	for b in range(B):
		k = r.choice([1, 2, 3, r.randint(4, 12)])
		seqs.append(gen.rand_seq(r, k_lengths(size, step, k, r.randrange(
			step)), "ACGTN"))
	w = {"size": size, "overlap": overlap, "sequences": seqs}
	xs = []
	for s in seqs:
		st, x = gen.call(utils.one_hot_encode, s)
		if st == "raise":
			rec.violation(cls, params, dict(w, what="one_hot_encode raised",
				error=repr(x)[:200]), mech="C15/encode-raised")
			return
		xs.append(x)
	st, Y = gen.call(utils.chunk, xs, size=size, overlap=overlap)
	if st == "raise":
		rec.violation(cls, params, dict(w, what="chunk raised",
			error=repr(Y)[:200]), mech="C15/chunk-raised")
		return
	st, out = gen.call(utils.unchunk, Y, lengths=[len(s) for s in seqs],
		overlap=overlap)
	if st == "raise" or not isinstance(out, (list, tuple)) or len(out) != B:
		rec.violation(cls, params, dict(w, what="unchunk raised or returned "
			"another number of sequences", got=repr(out)[:200]),
			mech="C15/unchunk-raised" if st == "raise" else
			"C15/unchunk-structure")
		return
	worst = None
	for b, s in enumerate(seqs):
		k = n_complete(len(s), size, step)
		want = s[:size + (k - 1) * step]
		st, c = gen.call(utils.characters, out[b], allow_N=True)
		if st == "raise" or c != want:
			single = (k == 1 and overlap > 0 and st == "ok" and isinstance(c,
				str) and len(c) < len(want) and c in want)
			mech = ("C15/unchunk-single-chunk" if single else
				"C15/pipeline-mismatch")
			d = dict(w, what="decoded unchunk(chunk(one_hot_encode(s))) is "
				"not the covered prefix of s", sequence=b, chunks=k,
				got=repr(c)[:200], expected=want[:200])
			if worst is None or (worst[0] == "C15/unchunk-single-chunk"
				and not single):
				worst = (mech, d)
	if worst is None:
		rec.held(cls, params, nontrivial=True)
	else:
		rec.violation(cls, params, worst[1], mech=worst[0])


# --------------------------------------------------------------------------
# entry points
# --------------------------------------------------------------------------

def run_case(cls, params, rec):
	kind = params.get("kind")
	if kind == "ohe":
		case_ohe(cls, params, rec)
	elif kind == "illegal":
		case_illegal(cls, params, rec)
	elif kind == "forms":
		case_forms(cls, params, rec)
	elif kind == "rc":
		case_rc(cls, params, rec)
	elif kind == "rct":
		case_rct(cls, params, rec)
	elif kind == "rchist":
		case_rchist(cls, params, rec)
	elif kind == "chunk":
		chunk_call(cls, params, rec)
	elif kind == "pipeline":
		case_pipeline(cls, params, rec)
	elif kind == "huge":
		case_huge(cls, params, rec)
	else:
		raise ValueError("unknown case kind %r" % (kind,))


def plan(tier, seed):
	units = []
	quick = tier == "quick"
	# ---- one_hot_encode / characters
	configs = make_configs(tier, seed)
	for n, (a, i) in enumerate(configs):
		Q = len(a) + len(i)
		Lmax = length_bound(Q, tier)
		total = sum(Q ** L for L in range(1, Lmax + 1))
		nparts = max(1, total // 20000)
		for part in range(nparts):
			units.append({"cls": "ohe-config", "alphabet": a, "ignore": i,
				"dtype": MAIN_DT[n % len(MAIN_DT)], "Lmax": Lmax,
				"part": part, "nparts": nparts,
				"weight": 2 + total / nparts / 300})
	if not quick:
		# the full length-6 scope for larger alphabet+ignore sets
		for a, i, dtname in (("ACGT", "N-", "int8"), ("ACGTU", "", "float32"),
			("ACGTRYKM", "N.", "int8"), ("ACDEFGHI", "XZ", "float64")):
			Q = len(a) + len(i)
			total = sum(Q ** L for L in range(1, 7))
			nparts = max(1, total // 30000)
			for part in range(nparts):
				units.append({"cls": "ohe-config", "alphabet": a, "ignore": i,
					"dtype": dtname, "Lmax": 6, "part": part,
					"nparts": nparts, "weight": 2 + total / nparts / 300})
	for what in ("empty", "dtypes", "ctrl", "forms"):
		units.append({"cls": "ohe-misc", "what": what, "seed": seed,
			"weight": 6})
	for k in range(4 if quick else 32):
		units.append({"cls": "ohe-long", "k": k, "seed": seed,
			"n": 12 if quick else 40, "Lmax": 10000 if quick else 100000,
			"weight": 8 if quick else 60})
	# ---- the numba kernel under bounds checking (own env -> own workers)
	bc_env = {"NUMBA_BOUNDSCHECK": "1"}
	bc_configs = [("ACGT", "N", "int8"), ("A", "", "float32"),
		("ACDEFGHI", "XZ", "int8"), (" ~", "!", "int64")]
	if not quick:
		bc_configs += [(a, i, MAIN_DT[n % len(MAIN_DT)])
			for n, (a, i) in enumerate(configs[23:23 + 28])]
	for a, i, dtname in bc_configs:
		Q = len(a) + len(i)
		Lmax = min(length_bound(Q, tier), 5 if quick else 6)
		total = sum(Q ** L for L in range(1, Lmax + 1))
		units.append({"cls": "ohe-config", "alphabet": a, "ignore": i,
			"dtype": dtname, "Lmax": Lmax, "boundscheck": True,
			"env": bc_env, "weight": 4 + total / 300})
	for k in range(2 if quick else 8):
		units.append({"cls": "ohe-long", "k": 1000 + k, "seed": seed,
			"n": 10 if quick else 40, "Lmax": 10000 if quick else 100000,
			"boundscheck": True, "env": bc_env, "weight": 8})
	# ---- reverse_complement
	Lrc = 6 if quick else 7
	for L in range(0, Lrc + 1):
		total = 5 ** L
		nparts = max(1, total // 4000)
		for part in range(nparts):
			units.append({"cls": "rc", "what": "exh", "map": "dna", "L": L,
				"part": part, "nparts": nparts,
				"weight": 1 + total / nparts / 100})
	for mapname in MAPS:
		if mapname == "dna":
			continue
		Q = len(MAPS[mapname]) + 1
		for L in range(0, (5 if quick else 6) + 1):
			if Q ** L > 20000:
				continue
			units.append({"cls": "rc", "what": "exh", "map": mapname, "L": L,
				"weight": 1 + Q ** L / 100})
	units.append({"cls": "rc", "what": "tensor", "seed": seed, "weight": 10})
	for n in range(1, (5 if quick else 6) + 1):
		units.append({"cls": "rc", "what": "involutions", "n": n,
			"Lmax": 3 if n < 6 else 2, "weight": 2 + 3 ** n / 4})
	for k in range(2 if quick else 16):
		units.append({"cls": "rc", "what": "history", "seed": seed, "k": k,
			"n": 60 if quick else 200, "weight": 6})
	for k in range(2 if quick else 16):
		units.append({"cls": "rc", "what": "long", "seed": seed, "k": k,
			"n": 20 if quick else 60, "Lmax": 10000 if quick else 100000,
			"weight": 10})
	# ---- chunk / unchunk
	for size in range(1, 41):
		units.append({"cls": "chunk-grid", "size": size, "tier": tier,
			"seed": seed, "weight": size * (3 if quick else 3 + size)})
	for k in range(4 if quick else 32):
		units.append({"cls": "chunk-misc", "what": "rand", "seed": seed,
			"k": k, "n": 40 if quick else 150, "weight": 20})
	units.append({"cls": "chunk-misc", "what": "short", "seed": seed,
		"weight": 2})
	units.append({"cls": "chunk-misc", "what": "nolengths", "seed": seed,
		"weight": 2})
	units.append({"cls": "chunk-misc", "what": "huge", "seed": seed,
		"n": 2 if quick else 12, "weight": 30})
	for k in range(2 if quick else 16):
		units.append({"cls": "chunk-misc", "what": "pipeline", "seed": seed,
			"k": k, "n": 60 if quick else 250, "weight": 10})
	return units


def run_unit(unit, rec):
	c = unit["cls"]
	if c == "ohe-config":
		run_ohe_config(unit, rec)
	elif c == "ohe-misc":
		run_ohe_misc(unit, rec)
	elif c == "ohe-long":
		run_ohe_long(unit, rec)
	elif c == "rc":
		run_rc(unit, rec)
	elif c == "chunk-grid":
		run_chunk_grid(unit, rec)
	elif c == "chunk-misc":
		run_chunk_misc(unit, rec)
	else:
		raise ValueError("unknown unit class %r" % (c,))
	for k in list(SEEN):
		rec.count(k, SEEN.pop(k))
