"""C18  Annotation and k-mer counting equal direct enumeration.

Monitor: every call of annotate.count_annotations / pairwise_annotations /
pairwise_annotations_spacing and kmers.kmers made by the workload is observed
at the API boundary (returned tensor or exception).  Oracle: nested Python
loops over the rows of the annotation table (resp. over the windows of the
sequence) written here; nothing of tangermeme is used to build an expected
value.

Conventions used by the oracle and where they come from
  * count_annotations: cell (e, a) = number of rows (e, a); dim=0 -> per
    annotation (column sums), dim=1 -> per example (row sums); shape of the
    result = (max example + 1, max annotation + 1) unless `shape` is given
    (docstring, tests/test_annotate.py).
  * pairwise_annotations: unordered pairs {i, j}, i != j, of rows of the same
    example; symmetric=True: cell (a, b) = cell (b, a) = number of pairs with
    annotations {a, b}, a pair with a == b counted once on the diagonal
    (property text; tests/test_annotate.py::test_pairwise_annotations_small).
    symmetric=False: the property only fixes cell(a,b)+cell(b,a) and the
    diagonal; the docstring additionally says row = annotation of the earlier
    row of X, column = annotation of the later one; this is judged under its
    own mechanism key.
  * pairwise_annotations_spacing: left = the row with the smaller start,
    gap = right.start - left.end; a pair contributes to (a, b, gap) iff
    0 <= gap < max_distance; every other pair contributes nothing and must
    not make the call fail.  A row never pairs with itself (visible only
    with empty spans [s, s), whose self-gap would be 0; they are used where
    left/right stays decidable).  With symmetric=False only cell(a,b,d)+cell(b,a,d)
    and the diagonal are judged (docstring and implementation disagree about
    which of the two cells is used; the property is silent); the observed
    convention is recorded as an observation.
  * kmers: entry j <-> the k-mer c_0 c_1 .. c_{k-1} with j = sum_t c_t * A**t
    (first character least significant).  This order is *derived from
    tests/test_kmers.py*: 'ACTAC' of 'ACTACTGCAT' must be entry 308 =
    0 + 1*4 + 3*16 + 0*64 + 1*256, and the six/four pinned entries of the test
    are re-derived by `_pinned_selfcheck` with the oracle below before any
    kmers case is judged.  With scores an occurrence contributes the sum of
    the k scores under it (test_kmers_scores: entry 11572 = 1+..+7 = 28).
"""

import itertools
import warnings

import numpy
import torch

from .. import gen

ID = "C18"
LEVEL = "exploration"
RULE = ("one case = one call of one of the four functions on one explicit "
	"input (annotation table + options, or one sequence + k + scores; a kmers "
	"call on a batch of B sequences is B cases).  Enumerated completely: all "
	"tables of <= 4 (thorough 5) rows over 2 examples x 3 annotations for "
	"count_annotations (dim None/0/1) and pairwise_annotations (symmetric "
	"True/False); all ordered 2-row spacing tables with starts 0..R, lengths "
	"1..3(4), annotations {0,1}^2, max_distance 1..3, symmetric True/False, "
	"plus every 1-row table and every empty span [s, s) alone or paired "
	"with a span at an in-range/far gap; "
	"all sequences of length <= 6 over ACGT (and <= 8 over 2, <= 6 over 3 "
	"letters) for k = 1..4 with and without scores, batched and (length <= "
	"5/6) one by one.  Random: tables of 1-200 rows, 1-8 examples, 1-10 "
	"annotation types in every accepted input form (tensor of every integer "
	"dtype, non-contiguous view, tuple/list of tensors / numpy arrays / "
	"pandas Series, DataFrame and (DataFrame, tensor) for spacing), explicit "
	"shapes, output dtypes wide enough for the expected counts; spacing "
	"tables are grown by planting each new span relative to an existing one "
	"(abutting, gap 1, max_distance-1, max_distance, max_distance+1, far, "
	"overlapping by one, overlapping, nested, containing, coinciding, same "
	"start, same end) in five classes that admit only in-range/far pairs "
	"(clean; zerolen = the same with empty spans), additionally gap == "
	"max_distance (eqmax), additionally "
	"negative gaps (overlap), or everything (mixed); rows are shuffled so "
	"left/right is not row order.  Non-trivial: count - at least 2 occupied "
	"cells and max example, max annotation >= 1; pairwise - at least one "
	"same-example pair; spacing - at least one same-example pair with gap <= "
	"max_distance+1 (in range, boundary or overlapping); kmers - length > k "
	"and >= 2 distinct characters.  Distinct = distinct (function, table "
	"content, options) resp. (sequence, k, score vector).")
ASSUMPTIONS = [
	"spans have end > start (length >= 1), so that 'left' is unambiguous or "
	"irrelevant (equal starts always overlap); empty spans [s, s) appear "
	"only in class spacing-zerolen and in the enumerated scope, never "
	"sharing their start with a non-empty span of the same example (such a "
	"table would be inconclusive), and a ValueError on a table containing "
	"one is a refusal",
	"all indices and coordinates are >= 0 and fit the input dtype",
	"the output dtype is chosen wide enough for every expected cell; the "
	"default dtype is only used when the expected maximum fits it",
	"a `shape` smaller than the observed indices: raising is a refusal, "
	"returning is not judged (inconclusive)",
	"float-typed tables are judged for count_annotations (pinned by "
	"tests/test_annotate.py); for pairwise_annotations(_spacing), whose "
	"docstrings ask for integers, a TypeError/ValueError on a float table is "
	"a refusal",
	"kmers on a sequence shorter than k: a raise is a refusal, a returned "
	"value must be all zero",
	"kmers scores: integers and multiples of 1/8 are compared exactly (all "
	"partial sums are exactly representable in float32); arbitrary floats "
	"with the float32 summation bound 2*(k+L)*2^-24*sum|terms|",
	"symmetric=False: pairwise_annotations is additionally held to its "
	"docstring (row = earlier row of X, column = later row); "
	"pairwise_annotations_spacing only to cell(a,b,d)+cell(b,a,d)",
]
REQUIRED = {
	"count_calls": 200, "pairwise_calls": 200, "spacing_calls": 200,
	"kmers_sequences": 5000,
	"spacing_pairs_gap0": 20, "spacing_pairs_gap_max_minus_1": 20,
	"spacing_pairs_gap_eq_max": 20, "spacing_pairs_gap_max_plus_1": 20,
	"spacing_pairs_overlap_partial": 20, "spacing_pairs_nested": 20,
	"spacing_pairs_coincide": 20, "spacing_pairs_equal_start": 20,
	"spacing_pairs_in_range": 200, "spacing_empty_spans": 50,
	"spacing_pairs_with_empty_span": 50,
	"set:count_forms": 8, "set:pairwise_forms": 8, "set:spacing_forms": 8,
	"set:count_dims": 3, "set:shape_modes": 3,
}
TIMEOUT = {"quick": 900, "thorough": 5400}

TD = {"uint8": torch.uint8, "int8": torch.int8, "int16": torch.int16,
	"int32": torch.int32, "int64": torch.int64, "float32": torch.float32,
	"float64": torch.float64}
ND = {"uint8": numpy.uint8, "int8": numpy.int8, "int16": numpy.int16,
	"int32": numpy.int32, "int64": numpy.int64, "float32": numpy.float32,
	"float64": numpy.float64}
# largest integer every value up to which is exactly representable / in range
CAP = {"uint8": 255, "int8": 127, "int16": 32767, "int32": 2 ** 31 - 1,
	"int64": 2 ** 62, "float32": 2 ** 24, "float64": 2 ** 53}
DEFAULT_OUT = {"count": "uint8", "pairwise": "int64", "spacing": "uint8"}


def qcall(fn, *a, **k):
	with warnings.catch_warnings():
		warnings.simplefilter("ignore")
		return gen.call(fn, *a, **k)


# ---------------------------------------------------------------------------
# oracles (plain loops)
# ---------------------------------------------------------------------------

def o_count(rows, shape, dim):
	ne = max(r[0] for r in rows) + 1
	na = max(r[1] for r in rows) + 1
	if shape is not None:
		ne, na = shape
	if dim is None:
		M = numpy.zeros((ne, na), dtype=numpy.int64)
		for r in rows:
			M[r[0], r[1]] += 1
		return M
	if dim == 0:
		v = numpy.zeros(na, dtype=numpy.int64)
		for r in rows:
			v[r[1]] += 1
		return v
	v = numpy.zeros(ne, dtype=numpy.int64)
	for r in rows:
		v[r[0]] += 1
	return v


def by_example(rows):
	g = {}
	for i, r in enumerate(rows):
		g.setdefault(r[0], []).append(i)
	return g


def o_pairs(rows, n):
	"""-> (U, D, npairs): U unordered/symmetric, D directed earlier->later."""
	U = numpy.zeros((n, n), dtype=numpy.int64)
	D = numpy.zeros((n, n), dtype=numpy.int64)
	npairs = 0
	for e, idxs in by_example(rows).items():
		for x in range(len(idxs)):
			a = rows[idxs[x]][1]
			for y in range(x + 1, len(idxs)):
				b = rows[idxs[y]][1]
				npairs += 1
				D[a, b] += 1
				U[a, b] += 1
				if a != b:
					U[b, a] += 1
	return U, D, npairs


def pair_gap(r0, r1):
	"""rows (e, a, start, end) with end >= start -> (left, right, gap).
	gap is None when 'left' is undecidable and matters: equal starts and
	exactly one of the two spans empty (gap 0 one way, negative the other)."""
	if r0[2] < r1[2]:
		return r0, r1, r1[2] - r0[3]
	if r1[2] < r0[2]:
		return r1, r0, r0[2] - r1[3]
	l0, l1 = r0[3] - r0[2], r1[3] - r1[2]
	if l0 == 0 and l1 == 0:
		return r0, r1, 0           # two empty spans at the same position
	if l0 == 0 or l1 == 0:
		return r0, r1, None
	# equal starts: the spans overlap whichever is called left (lengths >= 1)
	return r0, r1, r0[2] - min(r0[3], r1[3])


def gap_cat(g, m):
	if g is None:
		return "ambiguous"
	if g < 0:
		return "neg"
	if g < m:
		return "in"
	if g == m:
		return "eq"
	return "far"


def o_spacing(rows, n, m, stats=None):
	"""-> U (n, n, m) symmetric counts, LR (left, right, d), RO (earlier row,
	later row, d), cats: {category: [(i, j), ...]} (first few pairs)."""
	U = numpy.zeros((n, n, m), dtype=numpy.int64)
	LR = numpy.zeros((n, n, m), dtype=numpy.int64)
	RO = numpy.zeros((n, n, m), dtype=numpy.int64)
	cats = {}
	for e, idxs in by_example(rows).items():
		for x in range(len(idxs)):
			r0 = rows[idxs[x]]
			for y in range(x + 1, len(idxs)):
				r1 = rows[idxs[y]]
				left, right, g = pair_gap(r0, r1)
				c = gap_cat(g, m)
				lst = cats.setdefault(c, [])
				if len(lst) < 6:
					lst.append((idxs[x], idxs[y]))
				if stats is not None:
					stats["total"] = stats.get("total", 0) + 1
					_relation_stats(stats, r0, r1, g, m)
				if g is not None and 0 <= g < m:
					a, b = left[1], right[1]
					LR[a, b, g] += 1
					RO[r0[1], r1[1], g] += 1
					U[a, b, g] += 1
					if a != b:
						U[b, a, g] += 1
	return U, LR, RO, cats


def _relation_stats(st, r0, r1, g, m):
	def inc(k):
		st[k] = st.get(k, 0) + 1
	if r0[2] == r0[3] or r1[2] == r1[3]:
		inc("with_empty_span")
	if g is None:
		return
	if g == 0:
		inc("gap0")
	if g == m - 1:
		inc("gap_max_minus_1")
	if g == m:
		inc("gap_eq_max")
	if g == m + 1:
		inc("gap_max_plus_1")
	if 0 <= g < m:
		inc("in_range")
	if g > m + 1:
		inc("far")
	if g < 0:
		inc("negative")
		if g < -m:
			inc("negative_below_minus_max")
		s0, t0, s1, t1 = r0[2], r0[3], r1[2], r1[3]
		if (s0, t0) == (s1, t1):
			inc("coincide")
		elif (s0 <= s1 and t1 <= t0) or (s1 <= s0 and t0 <= t1):
			inc("nested")
		else:
			inc("overlap_partial")
		if s0 == s1:
			inc("equal_start")


def kmer_index(chars, A):
	"""index of the k-mer given as a list of character indices."""
	return sum(c * A ** t for t, c in enumerate(chars))


def o_kmers(idx, A, k, scores):
	"""idx: (B, L) ints; scores: None or (B, L) floats -> (value, abs-sum)."""
	B, L = len(idx), len(idx[0])
	out = numpy.zeros((B, A ** k), dtype=numpy.float64)
	mag = numpy.zeros((B, A ** k), dtype=numpy.float64)
	for b in range(B):
		row = idx[b]
		for i in range(L - k + 1):
			j = kmer_index([int(c) for c in row[i:i + k]], A)
			if scores is None:
				out[b, j] += 1
				mag[b, j] += 1
			else:
				w = scores[b][i:i + k]
				out[b, j] += float(sum(w))
				mag[b, j] += float(sum(abs(x) for x in w))
	return out, mag


_PINNED_DONE = []


def _pinned_selfcheck():
	"""The index order is pinned by tests/test_kmers.py; the oracle must
	reproduce the entries asserted there (harness self-check, no tangermeme)."""
	if _PINNED_DONE:
		return
	s = "ACTACTGCAT"
	idx = [["ACGT".index(c) for c in s]]
	o5, _ = o_kmers(idx, 4, 5, None)
	assert sorted(numpy.nonzero(o5[0])[0].tolist()) == sorted(
		[308, 845, 723, 436, 109, 795]), "k=5 order differs from test_kmers"
	assert o5.sum() == 6
	o7, _ = o_kmers(idx, 4, 7, None)
	assert sorted(numpy.nonzero(o7[0])[0].tolist()) == sorted(
		[11572, 6989, 1747, 12724])
	sc = [[float(v) for v in range(1, 11)]]
	o7s, _ = o_kmers(idx, 4, 7, sc)
	assert (o7s[0, 11572], o7s[0, 6989], o7s[0, 1747], o7s[0, 12724]) == (
		28, 35, 42, 49) and o7s.sum() == 154
	_PINNED_DONE.append(True)


# ---------------------------------------------------------------------------
# helpers
# ---------------------------------------------------------------------------

def to_np(val):
	a = val.detach().cpu().numpy()
	if a.dtype.kind == "f":
		return a.astype(numpy.float64)
	return a.astype(numpy.int64)


def first_diff(got, exp):
	bad = numpy.argwhere(~(got == exp))
	if len(bad) == 0:
		return None
	ix = tuple(int(v) for v in bad[0])
	return {"index": list(ix), "got": float(got[ix]), "expected": float(exp[ix]),
		"n_cells_wrong": int(len(bad))}


def show_rows(rows, cap=16):
	if len(rows) <= cap:
		return {"rows": [list(r) for r in rows]}
	return {"rows_first": [list(r) for r in rows[:cap]], "n_rows": len(rows)}


def opts_of(cfg):
	return {k: v for k, v in cfg.items() if k != "rows"}


def shrink(rows, fails, budget=60):
	"""Bounded greedy reduction of a failing table (for the witness only)."""
	rows = list(rows)
	n = 2
	calls = 0
	while len(rows) >= 2 and calls < budget:
		size = max(1, len(rows) // n)
		reduced = False
		for s in range(0, len(rows), size):
			cand = rows[:s] + rows[s + size:]
			if not cand:
				continue
			calls += 1
			if fails(cand):
				rows = cand
				n = max(n - 1, 2)
				reduced = True
				break
			if calls >= budget:
				break
		if not reduced:
			if size == 1:
				break
			n = min(n * 2, len(rows))
	return rows


def fit_dtypes(maxcell, allow=("uint8", "int8", "int16", "int32", "int64",
	"float32", "float64")):
	return [d for d in allow if maxcell <= CAP[d]]


def in_dtypes_for(maxval, floats=False):
	out = [d for d in ("uint8", "int8", "int16", "int32", "int64")
		if maxval + 1 <= CAP[d]]      # +1: implementations add 1 to the maximum
	if floats:
		out += ["float32", "float64"]
	return out


# ---------------------------------------------------------------------------
# input forms
# ---------------------------------------------------------------------------

FORMS2 = ("tensor", "tensor_noncontig", "tuple_tensor", "list_tensor",
	"tuple_numpy", "list_numpy", "tuple_series", "tuple_mixed")
FORMS4 = ("tensor", "tensor_noncontig", "dataframe", "dataframe_int32",
	"tuple_df_tensor", "tuple_df_tensorcol", "tuple_4tensors", "list_numpy",
	"tuple_tensor3_tensor")


def build2(rows, form, in_dtype):
	import pandas
	arr = numpy.array(rows, dtype=numpy.int64).reshape(-1, 2)
	nd, td = ND[in_dtype], TD[in_dtype]
	if form == "tensor":
		return torch.from_numpy(arr.copy()).type(td)
	if form == "tensor_noncontig":
		wide = numpy.full((len(arr), 5), 1, dtype=numpy.int64)
		wide[:, 1] = arr[:, 0]
		wide[:, 3] = arr[:, 1]
		return torch.from_numpy(wide).type(td)[:, 1::2]
	e = arr[:, 0].astype(nd)
	a = arr[:, 1].astype(nd)
	if form in ("tuple_tensor", "list_tensor"):
		v = [torch.from_numpy(e.copy()), torch.from_numpy(a.copy())]
		return tuple(v) if form == "tuple_tensor" else v
	if form in ("tuple_numpy", "list_numpy"):
		v = [e.copy(), a.copy()]
		return tuple(v) if form == "tuple_numpy" else v
	df = pandas.DataFrame({"example_idx": e, "annotation_idx": a})
	if form == "tuple_series":
		# two Series whose index labels need not agree (one column comes from
		# a re-ordered table): the pairing is by position
		s_e = gen.reindex(df[["example_idx"]], "C18e", rows[:4], len(rows))[
			"example_idx"]
		s_a = gen.reindex(df[["annotation_idx"]], "C18a", rows[:4], len(
			rows))["annotation_idx"]
		return (s_e, s_a)
	if form == "tuple_mixed":
		return (df["example_idx"], torch.from_numpy(a.copy()))
	raise AssertionError(form)


def build4(rows, form, in_dtype):
	"""rows (e, a, start, end) in the documented column order."""
	import pandas
	arr = numpy.array(rows, dtype=numpy.int64).reshape(-1, 4)
	nd, td = ND[in_dtype], TD[in_dtype]
	if form == "tensor":
		return torch.from_numpy(arr.copy()).type(td)
	if form == "tensor_noncontig":
		wide = numpy.full((len(arr), 8), 1, dtype=numpy.int64)
		wide[:, ::2] = arr
		return torch.from_numpy(wide).type(td)[:, ::2]
	cols = ["example_idx", "annotation_idx", "start", "end"]
	if form == "dataframe":
		return gen.reindex(pandas.DataFrame(arr.astype(numpy.int64),
			columns=cols), "C18df", rows[:4], len(rows))
	if form == "dataframe_int32":
		return gen.reindex(pandas.DataFrame(arr.astype(numpy.int32),
			columns=cols), "C18df32", rows[:4], len(rows))
	bed = arr[:, [0, 2, 3]]
	ann = arr[:, 1]
	if form == "tuple_df_tensor":
		df = gen.reindex(pandas.DataFrame(bed.astype(numpy.int64), columns=[
			"example_idx", "start", "end"]), "C18bed", rows[:4], len(rows))
		return (df, torch.from_numpy(ann.astype(nd)))
	if form == "tuple_df_tensorcol":
		# (seqlet BED frame, idxs as returned by annotate_seqlets: (n, 1) int32)
		df = pandas.DataFrame(bed.astype(numpy.int64), columns=["example_idx",
			"start", "end"])
		return (df, torch.from_numpy(ann.astype(numpy.int32)).unsqueeze(1))
	if form == "tuple_4tensors":
		return tuple(torch.from_numpy(arr[:, c].astype(nd)) for c in
			(0, 2, 3, 1))
	if form == "list_numpy":
		return [bed.astype(nd), ann.astype(nd)]
	if form == "tuple_tensor3_tensor":
		return (torch.from_numpy(bed.astype(nd)), torch.from_numpy(
			ann.astype(nd)))
	raise AssertionError(form)


# ---------------------------------------------------------------------------
# generators (config = explicit rows + options)
# ---------------------------------------------------------------------------

def pick_n(r):
	u = r.random()
	if u < 0.35:
		return r.randint(1, 10)
	if u < 0.75:
		return r.randint(11, 60)
	if u < 0.95:
		return r.randint(61, 200)
	# more rows than an 8-bit (and, per example, than a signed 8-bit) counter
	return r.randint(256, 600)


def weighted_pool(r, n):
	"""a non-empty subset of range(n) with skewed weights."""
	k = r.randint(1, n)
	pool = sorted(r.sample(range(n), k))
	w = [r.random() ** 3 + 0.02 for _ in pool]
	return pool, w


def pick_shape2(r, ne, na):
	u = r.random()
	if u < 0.45:
		return None, "inferred"
	if u < 0.60:
		return [ne, na], "exact"
	if u < 0.96 or (ne == 1 and na == 1):
		return [ne + r.choice([0, 1, 3, 7]), na + r.choice([0, 1, 2, 5])], "larger"
	if ne > 1 and (na == 1 or r.random() < 0.5):
		return [ne - 1, na + r.choice([0, 2])], "too_small"
	return [ne + r.choice([0, 2]), na - 1], "too_small"


def pick_shape1(r, na):
	u = r.random()
	if u < 0.45:
		return None, "inferred"
	if u < 0.60:
		return na, "exact"
	if u < 0.96 or na == 1:
		return na + r.choice([1, 2, 5]), "larger"
	return na - 1, "too_small"


def gen_rows2(r):
	n = pick_n(r)
	nE, nA = r.randint(1, 8), r.randint(1, 10)
	if n > 255 and r.random() < 0.7:
		nE = r.randint(1, 2)        # > 255 rows in ONE example
	pe, we = weighted_pool(r, nE)
	pa, wa = weighted_pool(r, nA)
	es = r.choices(pe, we, k=n)
	as_ = r.choices(pa, wa, k=n)
	return [[e, a] for e, a in zip(es, as_)]


def make_count_cfg(g):
	r = gen.pyrng(ID, "count", g["seed"], g["u"], g["i"])
	rows = gen_rows2(r)
	ne = max(x[0] for x in rows) + 1
	na = max(x[1] for x in rows) + 1
	dim = r.choice([None, None, 0, 1])
	shape, mode = pick_shape2(r, ne, na)
	exp = o_count(rows, shape if mode != "too_small" else None, dim)
	fits = fit_dtypes(int(exp.max()))
	out = r.choice(fits + [None, None]) if "uint8" in fits else r.choice(fits)
	form = r.choice(FORMS2)
	ind = r.choice(in_dtypes_for(max(ne, na), floats=True))
	cfg = {"fn": "count", "rows": rows, "dim": dim, "shape": shape,
		"shape_mode": mode, "out_dtype": out, "form": form, "in_dtype": ind}
	return cfg


def make_pairwise_cfg(g):
	r = gen.pyrng(ID, "pairwise", g["seed"], g["u"], g["i"])
	rows = gen_rows2(r)
	na = max(x[1] for x in rows) + 1
	ne = max(x[0] for x in rows) + 1
	shape, mode = pick_shape1(r, na)
	U, D, npairs = o_pairs(rows, na)
	fits = fit_dtypes(int(U.max()))
	out = r.choice(fits + [None, None])       # default int64 always fits
	form = r.choice(FORMS2)
	ind = r.choice(in_dtypes_for(max(ne, na), floats=r.random() < 0.1))
	return {"fn": "pairwise", "rows": rows, "symmetric": r.random() < 0.6,
		"shape": shape, "shape_mode": mode, "out_dtype": out, "form": form,
		"in_dtype": ind, "pass_symmetric": r.random() < 0.7}


GAP_RELS = ("abut", "gap1", "gap_max_m1", "in_rand", "gap_max_p1", "far",
	"gap_eq")
ALLOWED = {"clean": ("in", "far"), "zerolen": ("in", "far"),
	"eqmax": ("in", "far", "eq"),
	"overlap": ("in", "far", "neg"), "mixed": ("in", "far", "eq", "neg")}


def gen_rows4(r, cat, m):
	allowed = ALLOWED[cat]
	rels = ["abut", "gap1", "gap_max_m1", "in_rand"] * 2 + ["gap_max_p1",
		"gap_max_p1", "far"]
	if "eq" in allowed:
		rels += ["gap_eq"] * (6 if cat == "eqmax" else 3)
	if "neg" in allowed:
		rels += ["overlap1", "overlap", "nest", "contain", "coincide",
			"same_start", "same_end"] * (2 if cat == "overlap" else 1)
	n = pick_n(r)
	nE, nA = r.randint(1, 8), r.randint(1, 10)
	if n > 255 and r.random() < 0.7:
		nE = r.randint(1, 2)        # > 255 rows in ONE example
	pe, we = weighted_pool(r, nE)
	pa, wa = weighted_pool(r, nA)
	span = r.choice([30, 100, 250, 2000, 20000])
	lens = [1, 1, 2, 3, 5, 8, 13, 30]
	spans = {}
	rows = []
	attempts = 0
	while len(rows) < n and attempts < 8 * n + 20:
		attempts += 1
		e = r.choices(pe, we)[0]
		a = r.choices(pa, wa)[0]
		have = spans.setdefault(e, [])
		if have and r.random() < 0.75:
			s0, t0 = r.choice(have)
			L = r.choice(lens)
			rel = r.choice(rels)
			right = r.random() < 0.5
			if rel in GAP_RELS:
				gp = {"abut": 0, "gap1": 1, "gap_max_m1": m - 1,
					"in_rand": r.randrange(m), "gap_max_p1": m + 1,
					"far": m + r.randint(2, 40), "gap_eq": m}[rel]
				if right:
					s = t0 + gp
					t = s + L
				else:
					t = s0 - gp
					s = t - L
			elif rel == "overlap1":
				if right:
					s = t0 - 1
					t = s + L
				else:
					t = s0 + 1
					s = t - L
			elif rel == "overlap":
				s = r.randint(max(0, s0 - L + 1), t0 - 1)
				t = s + L
			elif rel == "nest":
				if t0 - s0 < 3:
					continue
				s = r.randint(s0 + 1, t0 - 2)
				t = r.randint(s + 1, t0 - 1)
			elif rel == "contain":
				s = s0 - r.randint(1, 3)
				t = t0 + r.randint(1, 3)
			elif rel == "coincide":
				s, t = s0, t0
			elif rel == "same_start":
				s, t = s0, s0 + L
			else:  # same_end
				t, s = t0, t0 - L
		else:
			s = r.randrange(span)
			t = s + r.choice(lens)
		if cat == "zerolen" and r.random() < 0.35:
			# empty span [s, s) or [t, t): keeps every planted gap relation
			if r.random() < 0.5:
				t = s
			else:
				s = t
		if s < 0 or t < s or (t == s and cat != "zerolen") or t > 32000:
			continue
		row = [e, a, s, t]
		ok = True
		for (s1, t1) in have:
			if gap_cat(pair_gap(row, [e, 0, s1, t1])[2], m) not in allowed:
				ok = False
				break
		if not ok:
			continue
		have.append((s, t))
		rows.append(row)
	if not rows:
		rows = [[0, 0, 3, 3 if cat == "zerolen" else 4]]
	r.shuffle(rows)
	return rows


def make_spacing_cfg(g):
	r = gen.pyrng(ID, "spacing", g["cat"], g["seed"], g["u"], g["i"])
	m = r.choice([1, 1, 2, 2, 3, 4, 5, 7, 10, 16, 31, 100, 100])
	rows = gen_rows4(r, g["cat"], m)
	na = max(x[1] for x in rows) + 1
	shape, mode = pick_shape1(r, na)
	U = o_spacing(rows, na, m)[0]
	fits = fit_dtypes(int(U.max()))
	out = r.choice(fits + [None, None]) if "uint8" in fits else r.choice(fits)
	form = r.choice(FORMS4)
	maxval = max(max(x) for x in rows)
	ind = r.choice(in_dtypes_for(maxval, floats=r.random() < 0.05))
	pass_m = not (m == 100 and r.random() < 0.5)
	return {"fn": "spacing", "rows": rows, "max_distance": m,
		"pass_max_distance": pass_m, "symmetric": r.random() < 0.6,
		"pass_symmetric": r.random() < 0.7, "shape": shape, "shape_mode": mode,
		"out_dtype": out, "form": form, "in_dtype": ind}


def expand(params):
	if "rows" in params:
		cfg = dict(params)
		cfg.setdefault("form", "tensor")
		cfg.setdefault("in_dtype", "int64")
		cfg.setdefault("out_dtype", None)
		cfg.setdefault("shape", None)
		cfg.setdefault("shape_mode", "inferred" if cfg["shape"] is None else
			"given")
		return cfg
	g = params["gen"]
	return {"count": make_count_cfg, "pairwise": make_pairwise_cfg,
		"spacing": make_spacing_cfg}[g["fn"]](g)


# ---------------------------------------------------------------------------
# count_annotations
# ---------------------------------------------------------------------------

def call_count(cfg, rows):
	from tangermeme.annotate import count_annotations
	X = build2(rows, cfg["form"], cfg["in_dtype"])
	kw = {}
	if cfg.get("out_dtype"):
		kw["dtype"] = TD[cfg["out_dtype"]]
	if cfg.get("shape") is not None:
		kw["shape"] = tuple(cfg["shape"])
	if cfg.get("dim") is not None or cfg.get("pass_dim"):
		kw["dim"] = cfg.get("dim")
	return qcall(count_annotations, X, **kw)


def judge_count(cfg, rows, st, val):
	"""-> None (agrees) or (mech, detail)."""
	if st == "raise":
		return "C18/count-raised", {"what": "count_annotations raised on a "
			"valid table", "error": repr(val)[:300]}
	exp = o_count(rows, cfg.get("shape"), cfg.get("dim"))
	if not isinstance(val, torch.Tensor) or tuple(val.shape) != exp.shape:
		return "C18/count-shape", {"what": "result shape", "got": str(getattr(
			val, "shape", type(val))), "expected": list(exp.shape)}
	d = first_diff(to_np(val), exp)
	if d is not None:
		d["what"] = ("cell (example, annotation) differs from the number of "
			"such rows" if cfg.get("dim") is None else
			"dim=%d reduction differs from the %s sums" % (cfg["dim"],
			"column" if cfg["dim"] == 0 else "row"))
		return ("C18/count-wrong-cell" if cfg.get("dim") is None else
			"C18/count-wrong-reduction"), d
	return None


def case_count(cls, params, cfg, rec):
	rows = cfg["rows"]
	ne = max(x[0] for x in rows) + 1
	na = max(x[1] for x in rows) + 1
	shape = cfg.get("shape")
	st, val = call_count(cfg, rows)
	rec.count("count_calls")
	rec.setadd("count_forms", cfg["form"] + "/" + cfg["in_dtype"])
	rec.setadd("count_dims", str(cfg.get("dim")))
	rec.setadd("out_dtypes", "count:" + str(cfg.get("out_dtype")))
	rec.setadd("shape_modes", cfg["shape_mode"])
	rec.maxv("count_rows_max", len(rows))
	if shape is not None and (shape[0] < ne or shape[1] < na):
		if st == "raise":
			rec.refusal(cls, params, "shape smaller than observed indices: " +
				type(val).__name__)
		else:
			rec.inconclusive(cls, params, "too-small shape accepted")
		return
	bad = judge_count(cfg, rows, st, val)
	if bad is None:
		cells = set((x[0], x[1]) for x in rows)
		nontriv = len(cells) >= 2 and ne >= 2 and na >= 2
		rec.maxv("count_cell_max", float(to_np(val).max()))
		rec.held(cls, params, nontrivial=nontriv, key=gen.seed_of(
			"count", rows, sorted(opts_of(cfg).items())).__str__())
		return
	mech, detail = bad

	def fails(sub):
		s2, v2 = call_count(cfg, sub)
		b2 = judge_count(cfg, sub, s2, v2)
		return b2 is not None and b2[0] == mech
	small = shrink(rows, fails) if len(rows) > 2 else rows
	detail.update(show_rows(rows))
	detail["options"] = opts_of(cfg)
	if len(small) < len(rows):
		s2, v2 = call_count(cfg, small)
		detail["reduced_table"] = {"rows": small, "got": to_np(v2).tolist()
			if s2 == "ok" else repr(v2)[:200], "expected": o_count(small,
			cfg.get("shape"), cfg.get("dim")).tolist()}
	rec.violation(cls, params, detail, mech=mech)


# ---------------------------------------------------------------------------
# pairwise_annotations
# ---------------------------------------------------------------------------

def call_pairwise(cfg, rows):
	from tangermeme.annotate import pairwise_annotations
	X = build2(rows, cfg["form"], cfg["in_dtype"])
	kw = {}
	if cfg.get("out_dtype"):
		kw["dtype"] = TD[cfg["out_dtype"]]
	if cfg.get("shape") is not None:
		kw["shape"] = int(cfg["shape"])
	if not cfg.get("symmetric", True) or cfg.get("pass_symmetric"):
		kw["symmetric"] = bool(cfg.get("symmetric", True))
	return qcall(pairwise_annotations, X, **kw)


def fold(got):
	"""got + got^T with the diagonal taken once (works for 2-D and 3-D)."""
	s = got + numpy.swapaxes(got, 0, 1)
	n = got.shape[0]
	for a in range(n):
		s[a, a] = got[a, a]
	return s


def judge_pairwise(cfg, rows, st, val):
	if st == "raise":
		return "C18/pairwise-raised", {"what": "pairwise_annotations raised "
			"on a valid table", "error": repr(val)[:300]}
	na = max(x[1] for x in rows) + 1
	n = cfg["shape"] if cfg.get("shape") is not None else na
	U, D, npairs = o_pairs(rows, n)
	if not isinstance(val, torch.Tensor) or tuple(val.shape) != (n, n):
		return "C18/pairwise-shape", {"what": "result shape", "got": str(
			getattr(val, "shape", type(val))), "expected": [n, n]}
	got = to_np(val)
	if cfg.get("symmetric", True):
		d = first_diff(got, U)
		if d is not None:
			d["what"] = ("cell (a, b) differs from the number of unordered "
				"same-example pairs with annotations {a, b}")
			return "C18/pairwise-wrong-count", d
		return None
	d = first_diff(fold(got), U)
	if d is not None:
		d["what"] = ("symmetric=False: cell(a,b)+cell(b,a) (diagonal once) "
			"differs from the number of unordered pairs")
		return "C18/pairwise-wrong-count", d
	d = first_diff(got, D)
	if d is not None:
		d["what"] = ("symmetric=False: cell (a, b) differs from the number of "
			"pairs whose earlier row has annotation a and later row b "
			"(docstring convention)")
		return "C18/pairwise-directed-order", d
	return None


def case_pairwise(cls, params, cfg, rec):
	rows = cfg["rows"]
	na = max(x[1] for x in rows) + 1
	shape = cfg.get("shape")
	st, val = call_pairwise(cfg, rows)
	rec.count("pairwise_calls")
	rec.setadd("pairwise_forms", cfg["form"] + "/" + cfg["in_dtype"])
	rec.setadd("out_dtypes", "pairwise:" + str(cfg.get("out_dtype")))
	rec.setadd("shape_modes", cfg["shape_mode"])
	rec.maxv("pairwise_rows_max", len(rows))
	if shape is not None and shape < na:
		if st == "raise":
			rec.refusal(cls, params, "shape smaller than observed indices: " +
				type(val).__name__)
		else:
			rec.inconclusive(cls, params, "too-small shape accepted")
		return
	if st == "raise" and cfg["in_dtype"].startswith("float") and isinstance(
		val, (TypeError, ValueError)):
		rec.refusal(cls, params, "float table: " + type(val).__name__)
		return
	bad = judge_pairwise(cfg, rows, st, val)
	if bad is None:
		npairs = o_pairs(rows, na)[2]
		rec.count("pairwise_pairs", npairs)
		rec.count("pairwise_symmetric_%s" % bool(cfg.get("symmetric", True)))
		rec.maxv("pairwise_cell_max", float(to_np(val).max()))
		rec.held(cls, params, nontrivial=npairs >= 1, key=str(gen.seed_of(
			"pairwise", rows, sorted(opts_of(cfg).items()))))
		return
	mech, detail = bad

	def fails(sub):
		s2, v2 = call_pairwise(cfg, sub)
		b2 = judge_pairwise(cfg, sub, s2, v2)
		return b2 is not None and b2[0] == mech
	small = shrink(rows, fails) if len(rows) > 2 else rows
	detail.update(show_rows(rows))
	detail["options"] = opts_of(cfg)
	if len(small) < len(rows):
		s2, v2 = call_pairwise(cfg, small)
		n2 = cfg["shape"] if shape is not None else max(x[1] for x in small) + 1
		U2, D2, _ = o_pairs(small, n2)
		detail["reduced_table"] = {"rows": small, "got": to_np(v2).tolist()
			if s2 == "ok" else repr(v2)[:200], "expected_symmetric":
			U2.tolist(), "expected_directed": D2.tolist()}
	rec.violation(cls, params, detail, mech=mech)


# ---------------------------------------------------------------------------
# pairwise_annotations_spacing
# ---------------------------------------------------------------------------

def call_spacing(cfg, rows, shape="cfg"):
	from tangermeme.annotate import pairwise_annotations_spacing
	X = build4(rows, cfg["form"], cfg["in_dtype"])
	kw = {}
	m = cfg["max_distance"]
	if m != 100 or cfg.get("pass_max_distance", True):
		kw["max_distance"] = m
	if cfg.get("out_dtype"):
		kw["dtype"] = TD[cfg["out_dtype"]]
	sh = cfg.get("shape") if shape == "cfg" else shape
	if sh is not None:
		kw["shape"] = int(sh)
	if not cfg.get("symmetric", True) or cfg.get("pass_symmetric"):
		kw["symmetric"] = bool(cfg.get("symmetric", True))
	return qcall(pairwise_annotations_spacing, X, **kw)


def judge_spacing(cfg, rows, st, val, shape="cfg", stats=None, obs=None):
	"""-> None or (kind, detail); kind in raise / shape / value."""
	m = cfg["max_distance"]
	sh = cfg.get("shape") if shape == "cfg" else shape
	n = sh if sh is not None else max(x[1] for x in rows) + 1
	U, LR, RO, cats = o_spacing(rows, n, m, stats)
	if st == "raise":
		return "raise", {"what": "pairwise_annotations_spacing raised; every "
			"pair either contributes to one cell or contributes nothing",
			"error": repr(val)[:300]}, cats
	if not isinstance(val, torch.Tensor) or tuple(val.shape) != (n, n, m):
		return "shape", {"what": "result shape", "got": str(getattr(val,
			"shape", type(val))), "expected": [n, n, m]}, cats
	got = to_np(val)
	if cfg.get("symmetric", True):
		d = first_diff(got, U)
		what = ("cell (a, b, d) differs from the number of same-example pairs "
			"with annotations {a, b} and gap d")
	else:
		d = first_diff(fold(got), U)
		what = ("symmetric=False: cell(a,b,d)+cell(b,a,d) (diagonal once) "
			"differs from the number of pairs with gap d")
		if d is None and obs is not None and LR.sum() > 0:
			if (got == LR).all():
				obs.append("asym_is_left_right")
			if (got == RO).all():
				obs.append("asym_is_row_order")
	if d is not None:
		d["what"] = what
		return "value", d, cats
	return None, None, cats


def attribute_spacing(cfg, rows, full_error=None):
	"""Which kind of pair reproduces the failure in isolation?  Runs the
	function on 2-row tables (the pair alone, same options, the annotation
	count of the full table as explicit shape) and judges each with the same
	oracle.  When the full table raised, a pair whose isolated call raises
	the very same error text is preferred as witness.
	-> {category: witness}"""
	n = cfg["shape"] if cfg.get("shape") is not None else (
		max(x[1] for x in rows) + 1)
	m = cfg["max_distance"]
	lists = {"in": [], "far": [], "eq": [], "neg": []}
	capn = {"in": 4, "far": 4, "eq": 12, "neg": 12}
	groups = by_example(rows)
	for e in sorted(groups):
		idxs = groups[e]
		for x in range(len(idxs)):
			for y in range(x + 1, len(idxs)):
				c = gap_cat(pair_gap(rows[idxs[x]], rows[idxs[y]])[2], m)
				if c in lists and len(lists[c]) < capn[c]:
					lists[c].append((idxs[x], idxs[y]))
	out = {}
	for c in ("in", "far", "eq", "neg"):
		for (i, j) in lists[c]:
			sub = [rows[i], rows[j]]
			st, val = call_spacing(cfg, sub, shape=n)
			kind, d, _ = judge_spacing(cfg, sub, st, val, shape=n)
			if kind is None:
				continue
			w = {"rows": [list(sub[0]), list(sub[1])],
				"gap": pair_gap(sub[0], sub[1])[2], "max_distance": m,
				"failure": kind}
			w.update(d)
			if kind == "value":
				g = to_np(val)
				w["nonzero_cells_got"] = [[int(v) for v in ix] + [float(
					g[tuple(ix)])] for ix in numpy.argwhere(g != 0)[:6]]
			same = full_error is not None and w.get("error") == full_error
			w["same_error_as_full_table"] = same
			if c not in out or same:
				out[c] = w
			if same or full_error is None:
				break
	return out


def case_spacing(cls, params, cfg, rec):
	rows = cfg["rows"]
	na = max(x[1] for x in rows) + 1
	shape = cfg.get("shape")
	m = cfg["max_distance"]
	st, val = call_spacing(cfg, rows)
	rec.count("spacing_calls")
	rec.setadd("spacing_forms", cfg["form"] if cfg["form"].startswith(
		"dataframe") else cfg["form"] + "/" + cfg["in_dtype"])
	rec.setadd("out_dtypes", "spacing:" + str(cfg.get("out_dtype")))
	rec.setadd("shape_modes", cfg["shape_mode"])
	rec.setadd("max_distances", m)
	rec.maxv("spacing_rows_max", len(rows))
	if shape is not None and shape < na:
		if st == "raise":
			rec.refusal(cls, params, "shape smaller than observed indices: " +
				type(val).__name__)
		else:
			rec.inconclusive(cls, params, "too-small shape accepted")
		return
	float_input = cfg["in_dtype"].startswith("float") and cfg["form"] not in (
		"dataframe", "dataframe_int32", "tuple_df_tensorcol")
	if st == "raise" and float_input and isinstance(val, (TypeError,
		ValueError)):
		rec.refusal(cls, params, "float table: " + type(val).__name__)
		return
	stats, obs = {}, []
	kind, detail, cats = judge_spacing(cfg, rows, st, val, stats=stats,
		obs=obs)
	if "ambiguous" in cats:
		rec.inconclusive(cls, params, "empty span shares its start with a "
			"non-empty one: left/right undecidable")
		return
	n_empty = sum(1 for x in rows if x[2] == x[3])
	if n_empty:
		rec.count("spacing_tables_with_empty_span")
		rec.count("spacing_empty_spans", n_empty)
		if st == "raise" and isinstance(val, ValueError):
			rec.refusal(cls, params, "table with an empty span rejected: " +
				repr(val)[:80])
			return
	for k, v in stats.items():
		rec.count("spacing_pairs_" + k, v)
	nontriv = (stats.get("in_range", 0) + stats.get("negative", 0) +
		stats.get("gap_eq_max", 0) + stats.get("gap_max_plus_1", 0)) >= 1
	if kind is None:
		for o in obs:
			rec.count("spacing_" + o)
		rec.count("spacing_symmetric_%s" % bool(cfg.get("symmetric", True)))
		rec.maxv("spacing_cell_max", float(to_np(val).max()))
		rec.held(cls, params, nontrivial=nontriv, key=str(gen.seed_of(
			"spacing", rows, sorted(opts_of(cfg).items()))))
		return
	if kind == "shape":
		detail.update(show_rows(rows))
		detail["options"] = opts_of(cfg)
		rec.violation(cls, params, detail, mech="C18/spacing-shape")
		return
	failing = attribute_spacing(cfg, rows, detail.get("error") if kind ==
		"raise" else None)
	if "in" in failing or "far" in failing:
		# an ordinary pair fails on its own: generic defect, reported first so
		# that it can never hide behind the boundary mechanisms
		mech = "C18/spacing-wrong-count" if failing.get("in", failing.get(
			"far"))["failure"] == "value" else "C18/spacing-raised"
		w = failing.get("in", failing.get("far"))
	elif "eq" in failing and "neg" in failing:
		# both boundary mechanisms are present in this table: name the one
		# that explains what was observed (a returned wrong count can only
		# come from a negative gap; a raise is matched by its error text)
		if kind == "value" or (failing["neg"]["same_error_as_full_table"]
			and not failing["eq"]["same_error_as_full_table"]):
			mech, w = "C18/spacing-negative-gap", failing["neg"]
		else:
			mech, w = "C18/spacing-gap-equals-max", failing["eq"]
	elif "eq" in failing:
		mech, w = "C18/spacing-gap-equals-max", failing["eq"]
	elif "neg" in failing:
		mech, w = "C18/spacing-negative-gap", failing["neg"]
	else:
		mech = ("C18/spacing-wrong-count" if kind == "value" else
			"C18/spacing-raised")
		w = None
	detail.update(show_rows(rows))
	detail["options"] = opts_of(cfg)
	detail["pair_categories_present"] = {c: len(v) for c, v in cats.items()}
	detail["isolated_pair_witness"] = w
	detail["isolated_pairs_failing"] = sorted(failing)
	if w is None and len(rows) > 2:
		def fails(sub):
			s2, v2 = call_spacing(cfg, sub)
			return judge_spacing(cfg, sub, s2, v2)[0] == kind
		small = shrink(rows, fails)
		if len(small) < len(rows):
			detail["reduced_table"] = small
	rec.violation(cls, params, detail, mech=mech, nontrivial=nontriv)


# ---------------------------------------------------------------------------
# kmers
# ---------------------------------------------------------------------------

def kmers_inputs(params):
	"""-> idx (B, L) int array, scores (list of lists of float) or None."""
	A = params["A"]
	s = params["seqs"]
	if isinstance(s, str) and s.startswith("all:"):
		L = int(s[4:])
		idx = numpy.indices((A,) * L).reshape(L, -1).T if L else numpy.zeros(
			(1, 0), dtype=numpy.int64)
		idx = numpy.ascontiguousarray(idx)
	elif isinstance(s, dict):
		r = gen.nprng(ID, "kmers-seq", *s["gen"])
		idx = r.integers(0, A, size=(s["B"], s["L"]))
		if s.get("runs"):
			# low-complexity stretches: repeated k-mers accumulate in one entry
			for b in range(s["B"]):
				p = int(r.integers(0, max(1, s["L"] - 1)))
				q = int(r.integers(p, s["L"])) + 1
				idx[b, p:q] = idx[b, p]
	else:
		al = gen.LETTERS[:A]
		idx = numpy.array([[al.index(c) for c in x] for x in s],
			dtype=numpy.int64).reshape(len(s), -1)
	B, L = idx.shape
	mode = params.get("scores")
	if mode is None:
		return idx, None
	if mode in ("int", "dyadic"):
		sc = [[float(((b * 7 + p * 3 + (b // 11)) % 11) - 5) for p in range(L)]
			for b in range(B)]
		if mode == "dyadic":
			sc = [[v / 8.0 for v in row] for row in sc]
		return idx, sc
	if mode == "float":
		r = gen.nprng(ID, "kmers-score", params.get("sseed", 0), B, L)
		return idx, r.normal(size=(B, L)).tolist()
	if isinstance(mode, list):
		return idx, [[float(v) for v in row] for row in mode]
	raise AssertionError(mode)


def case_kmers(cls, params, rec, bulk=False):
	from tangermeme.kmers import kmers
	_pinned_selfcheck()
	A, k = params["A"], params["k"]
	idx, sc = kmers_inputs(params)
	B, L = idx.shape
	xd = params.get("x_dtype", "int8")
	a = (idx[:, None, :] == numpy.arange(A)[None, :, None])
	X = torch.from_numpy(a.astype(numpy.int8)).type(torch.bool if xd == "bool"
		else TD[xd])
	kw = {}
	if sc is not None:
		kw["scores"] = torch.tensor(sc, dtype=torch.float64).type(TD[
			params.get("s_dtype", "float32")]).reshape(B, L)
	lay = gen.layout_of(params)
	X, xbase = gen.relayout(X, lay)
	sbase = None
	if "scores" in kw:
		kw["scores"], sbase = gen.relayout(kw["scores"], gen.layout_of(params,
			"scores"))
	if not bulk:
		rec.setadd("layouts", lay)
	mon = gen.Immutable(X=X, Xbase=xbase, sbase=sbase,
		scores=kw.get("scores"))
	st, val = qcall(kmers, X, k, **kw) if params.get("k_positional", True) \
		else qcall(kmers, X, k=k, **kw)
	if mon.changed():
		# the same score tensor is normally passed again for another k: a
		# call that rewrites it makes every later result wrong
		rec.violation(cls, params, {"what": "kmers modified the caller's "
			"tensors", "tensors": mon.changed(), "k": k,
			"s_dtype": params.get("s_dtype")}, mech="C18/kmers-input-modified")
		return
	if st == "ok" and sc is not None:
		# call history: the same X / scores objects again
		st_b, val_b = qcall(kmers, X, k, **kw)
		if st_b != "ok" or not torch.equal(val_b, val):
			rec.violation(cls, params, {"what": "the same kmers call on the "
				"same tensors gives another result the second time", "k": k,
				"s_dtype": params.get("s_dtype")},
				mech="C18/kmers-call-history-dependence")
			return
	rec.count("kmers_calls")
	rec.count("kmers_sequences", B)
	rec.setadd("kmers_k", k)
	rec.setadd("kmers_alphabets", A)
	rec.setadd("kmers_x_dtypes", xd)
	rec.setadd("kmers_score_modes", str(params.get("scores") if not
		isinstance(params.get("scores"), list) else "explicit") + "/" +
		str(params.get("s_dtype")))
	rec.maxv("kmers_L_max", L)
	al = gen.LETTERS[:A]

	def seq_of(b):
		return "".join(al[int(c)] for c in idx[b])

	def one(b):
		p = {"fn": "kmers", "A": A, "k": k, "seqs": [seq_of(b)],
			"x_dtype": xd}
		if sc is not None:
			p["scores"] = [sc[b]]
			p["s_dtype"] = params.get("s_dtype", "float32")
		return p
	if L < k:
		if st == "raise":
			rec.refusal(cls, params, "sequence shorter than k: " +
				type(val).__name__)
			rec.count("kmers_short_sequences_refused", B)
			return
	elif st == "raise":
		rec.violation(cls, params, {"what": "kmers raised on one-hot input "
			"with L >= k", "error": repr(val)[:300], "sequence": seq_of(0),
			"k": k}, mech="C18/kmers-raised")
		return
	exp, mag = o_kmers(idx, A, k, sc)
	if not isinstance(val, torch.Tensor) or tuple(val.shape) != exp.shape:
		rec.violation(cls, params, {"what": "result shape", "got": str(getattr(
			val, "shape", type(val))), "expected": list(exp.shape)},
			mech="C18/kmers-shape")
		return
	got = to_np(val)
	if sc is None or params.get("scores") in ("int", "dyadic"):
		okm = got == exp
	else:
		# float32 accumulation of at most (k + L) terms per entry
		tol = 2.0 * (k + L) * 2.0 ** -24 * mag + 1e-30
		okm = numpy.abs(got - exp) <= tol
		rec.maxv("kmers_float_err_over_tol", float((numpy.abs(got - exp) /
			tol).max()))
	bad_rows = numpy.nonzero(~okm.all(axis=1))[0].tolist()
	nontriv_rows = [b for b in range(B) if L > k and len(set(
		idx[b].tolist())) >= 2] if B <= 64 else None
	if nontriv_rows is None:
		ndist = numpy.array([len(set(row)) for row in idx.tolist()])
		nontriv_n = int(((ndist >= 2) & (L > k)).sum())
	else:
		nontriv_n = len(nontriv_rows)
	mech = "C18/kmers-wrong-count" if sc is None else "C18/kmers-wrong-score"
	for b in bad_rows[:25]:
		j = int(numpy.nonzero(~okm[b])[0][0])
		chars = []
		v = j
		for t in range(k):
			chars.append(al[v % A])
			v //= A
		d = {"what": "entry j differs from the %s of the j-th k-mer" % (
			"number of occurrences" if sc is None else "summed score of the "
			"occurrences"), "sequence": seq_of(b), "k": k, "j": j,
			"kmer_j (first char least significant)": "".join(chars),
			"got": float(got[b, j]), "expected": float(exp[b, j]),
			"n_entries_wrong": int((~okm[b]).sum()),
			"nonzero_got": [[int(x), float(got[b, x])] for x in
				numpy.nonzero(got[b])[0][:8]],
			"nonzero_expected": [[int(x), float(exp[b, x])] for x in
				numpy.nonzero(exp[b])[0][:8]],
			"batch_size": B, "row": b}
		if sc is not None:
			d["scores"] = sc[b] if L <= 40 else sc[b][:40]
		rec.violation(cls, one(b) if L <= 64 else params, d, mech=mech)
	if len(bad_rows) > 25:
		rec.count("kmers_violations_not_itemised", len(bad_rows) - 25)
	n_ok = B - len(bad_rows)
	if bulk:
		if n_ok:
			rec.bulk_held(cls, n_ok, max(0, nontriv_n - len(bad_rows)),
				sample=params)
	elif not bad_rows:
		rec.held(cls, params, nontrivial=nontriv_n >= 1)
	rec.count("kmers_occurrences", int(B * max(0, L - k + 1)))


# ---------------------------------------------------------------------------
# entry points
# ---------------------------------------------------------------------------

def run_case(cls, params, rec):
	fn = params["fn"] if "fn" in params else params["gen"]["fn"]
	if fn == "kmers":
		case_kmers(cls, params, rec, bulk=params.get("bulk", False))
		return
	cfg = expand(params)
	{"count": case_count, "pairwise": case_pairwise,
		"spacing": case_spacing}[fn](cls, params, cfg, rec)


def plan(tier, seed):
	q = tier == "quick"
	units = []
	# enumerated small scopes
	for n in range(1, (4 if q else 5) + 1):
		w = 6 ** n / 400.0 + 0.2
		units.append({"cls": "count-small-exh", "n": n, "weight": w * 10})
		units.append({"cls": "pairwise-small-exh", "n": n, "weight": w * 3})
	R, lmax = (6, 3) if q else (10, 4)
	for m in (1, 2, 3):
		for sym in (True, False):
			for a0 in (0, 1):
				for a1 in (0, 1):
					units.append({"cls": "spacing-pairs-exh", "m": m,
						"symmetric": sym, "a0": a0, "a1": a1, "R": R,
						"lmax": lmax, "weight": ((R + 1) * lmax) ** 2 / 500.0})
	for A, Lmax in ((4, 6), (2, 8), (3, 6)):
		for L in range(1, Lmax + 1):
			units.append({"cls": "kmers-exh", "A": A, "L": L,
				"weight": 0.3 + A ** L * L / 4000.0})
	for L in range(1, (5 if q else 6) + 1):
		units.append({"cls": "kmers-exh-single", "A": 4, "L": L,
			"weight": 0.2 + 4 ** L / 100.0})
	# random
	nu = 16 if q else 64
	per = {"count": 150 if q else 500, "pairwise": 60 if q else 250,
		"spacing": 40 if q else 160, "kmers": 50 if q else 200}
	for u in range(nu):
		units.append({"cls": "count-rand", "seed": seed, "u": u,
			"n": per["count"], "weight": per["count"] * 0.004})
		units.append({"cls": "pairwise-rand", "seed": seed, "u": u,
			"n": per["pairwise"], "weight": per["pairwise"] * 0.07})
		for cat in ("clean", "zerolen", "eqmax", "overlap", "mixed"):
			units.append({"cls": "spacing-" + cat, "cat": cat, "seed": seed,
				"u": u, "n": per["spacing"], "weight": per["spacing"] * 0.12})
		units.append({"cls": "kmers-rand", "seed": seed, "u": u,
			"n": per["kmers"], "tier": tier, "weight": per["kmers"] * (
				0.012 if q else 0.03)})
	return units


CELLS = [(e, a) for e in (0, 1) for a in (0, 1, 2)]


def run_unit(unit, rec):
	cls = unit["cls"]
	if cls == "count-small-exh":
		for t in itertools.product(CELLS, repeat=unit["n"]):
			rows = [list(x) for x in t]
			for dim in (None, 0, 1):
				run_case(cls, {"fn": "count", "rows": rows, "dim": dim,
					"out_dtype": "int64" if dim == 1 else None}, rec)
		rec.mark_exhaustive(cls)
	elif cls == "pairwise-small-exh":
		for t in itertools.product(CELLS, repeat=unit["n"]):
			rows = [list(x) for x in t]
			for sym in (True, False):
				run_case(cls, {"fn": "pairwise", "rows": rows,
					"symmetric": sym}, rec)
		rec.mark_exhaustive(cls)
	elif cls == "spacing-pairs-exh":
		R, lmax, m = unit["R"], unit["lmax"], unit["m"]
		spans = [(s, s + l) for s in range(R + 1) for l in range(1, lmax + 1)]
		for (s0, t0) in spans:
			for (s1, t1) in spans:
				run_case(cls, {"fn": "spacing", "rows": [[0, unit["a0"], s0,
					t0], [0, unit["a1"], s1, t1]], "max_distance": m,
					"symmetric": unit["symmetric"], "out_dtype": "int64"},
					rec)
		# empty spans [s, s): alone (no pair at all) and next to a span with a
		# different start whose gap is in range or beyond max_distance
		for s0 in range(R + 1):
			for a in sorted(set((unit["a0"], unit["a1"]))):
				run_case(cls, {"fn": "spacing", "rows": [[0, a, s0, s0]],
					"max_distance": m, "symmetric": unit["symmetric"]}, rec)
			for (s1, t1) in spans + [(s, s) for s in range(R + 1)]:
				for order in (0, 1):
					rows = [[0, unit["a0"], s0, s0], [0, unit["a1"], s1, t1]]
					if gap_cat(pair_gap(rows[0], rows[1])[2], m) not in (
						"in", "far"):
						continue
					run_case(cls, {"fn": "spacing", "rows": rows[::-1] if order
						else rows, "max_distance": m,
						"symmetric": unit["symmetric"]}, rec)
		for (s0, t0) in spans:
			run_case(cls, {"fn": "spacing", "rows": [[0, unit["a1"], s0, t0]],
				"max_distance": m, "symmetric": unit["symmetric"]}, rec)
		# the same spans in different examples never form a pair
		for (s0, t0) in spans[::7]:
			for (s1, t1) in spans[::5]:
				run_case(cls, {"fn": "spacing", "rows": [[0, unit["a0"], s0,
					t0], [1, unit["a1"], s1, t1]], "max_distance": m,
					"symmetric": unit["symmetric"]}, rec)
		rec.mark_exhaustive(cls)
	elif cls == "kmers-exh":
		A, L = unit["A"], unit["L"]
		c = 0
		for k in (1, 2, 3, 4):
			for mode in (None, "int", "dyadic"):
				c += 1
				p = {"fn": "kmers", "A": A, "k": k, "seqs": "all:%d" % L,
					"scores": mode, "bulk": True,
					"x_dtype": ("int8", "float32", "int64", "uint8", "float64",
						"int32", "bool")[(c + L) % 7]}
				if mode is not None:
					p["s_dtype"] = ("float32", "int64", "float64")[(c + L) % 3] \
						if mode == "int" else ("float32", "float64")[(c + L) % 2]
				run_case(cls, p, rec)
		rec.mark_exhaustive(cls)
	elif cls == "kmers-exh-single":
		A, L = unit["A"], unit["L"]
		al = gen.LETTERS[:A]
		for s in gen.all_seqs(L, al):
			b = kmer_index([al.index(ch) for ch in s], A)
			for k in (1, 2, 3, 4):
				p = {"fn": "kmers", "A": A, "k": k, "seqs": [s]}
				mode = (None, "int")[(b + k) % 2]
				if mode:
					# position-distinct integer scores, different per sequence
					p["scores"] = [[float(((b + 1) * (q + 2) * 3) % 13 - 6)
						for q in range(L)]]
					p["s_dtype"] = ("float32", "int64")[(b // 2) % 2]
				run_case(cls, p, rec)
		rec.mark_exhaustive(cls)
	elif cls in ("count-rand", "pairwise-rand"):
		fn = cls.split("-")[0]
		for i in range(unit["n"]):
			run_case(cls, {"gen": {"fn": fn, "seed": unit["seed"],
				"u": unit["u"], "i": i}}, rec)
	elif cls.startswith("spacing-"):
		for i in range(unit["n"]):
			run_case(cls, {"gen": {"fn": "spacing", "cat": unit["cat"],
				"seed": unit["seed"], "u": unit["u"], "i": i}}, rec)
	elif cls == "kmers-rand":
		r = gen.pyrng(ID, "kmers-rand", unit["seed"], unit["u"])
		big = unit.get("tier") == "thorough"
		for i in range(unit["n"]):
			A = r.choice([2, 3, 4, 4, 4, 4, 5, 18])
			kmax = {2: 10, 3: 7, 4: 7, 5: 5, 18: 3}[A]
			k = r.randint(1, kmax)
			u = r.random()
			if u < 0.15:
				L = r.randint(max(1, k - 2), k + 1)      # around L == k
			elif u < 0.7:
				L = r.randint(k, 60)
			else:
				L = r.randint(61, 3000 if big else 400)
			mode = r.choice([None, None, "int", "dyadic", "float"])
			p = {"fn": "kmers", "A": A, "k": k, "seqs": {"gen": [unit["seed"],
				unit["u"], i], "B": r.randint(1, 6), "L": L,
				"runs": r.random() < 0.3}, "scores": mode,
				"x_dtype": r.choice(["int8", "float32", "int64", "uint8",
					"float64", "int32", "bool"]),
				"k_positional": r.random() < 0.5}
			if mode is not None:
				p["s_dtype"] = r.choice(["float32", "float64"] + (["int64",
					"int32"] if mode == "int" else []))
				p["sseed"] = i
			run_case(cls, p, rec)
	else:
		raise AssertionError(cls)
