"""Monitors shared by several properties: model audit, failpoints (event-based
layers inside harness-built models, source-free line failpoints through
sys.monitoring)."""

import ast
import hashlib
import inspect
import sys
import textwrap

import torch


class Injected(Exception):
	"""The exception raised by a failpoint (a plain Exception subclass)."""


EXC_TYPES = {"Injected": Injected, "ValueError": ValueError,
	"RuntimeError": RuntimeError, "KeyboardInterrupt": KeyboardInterrupt,
	"MemoryError": MemoryError}


class FailCtl:
	"""Counts events of each kind and raises at the armed (kind, k)."""

	def __init__(self):
		self.reset()

	def reset(self):
		self.counts = {}
		self.armed = None
		self.fired = False

	def arm(self, kind, k, exc="Injected"):
		self.counts = {}
		self.armed = (kind, k, exc)
		self.fired = False

	def hit(self, kind):
		c = self.counts.get(kind, 0) + 1
		self.counts[kind] = c
		if self.armed is not None and self.armed[0] == kind and \
			self.armed[1] == c:
			self.fired = True
			raise EXC_TYPES[self.armed[2]]("injected at %s #%d" % (kind, c))


CTL = FailCtl()


class FailForward(torch.nn.Module):
	"""Identity layer; an event failpoint on every forward invocation."""

	def forward(self, x):
		CTL.hit("forward")
		return x


class _FailBackwardFn(torch.autograd.Function):
	@staticmethod
	def forward(ctx, x):
		return x.view_as(x)

	@staticmethod
	def backward(ctx, g):
		CTL.hit("backward")
		return g


class FailBackward(torch.nn.Module):
	"""Identity layer whose backward pass is an event failpoint."""

	def forward(self, x):
		return _FailBackwardFn.apply(x)


HOOK_DICTS = ("_forward_hooks", "_forward_pre_hooks", "_backward_hooks",
	"_backward_pre_hooks", "_forward_hooks_with_kwargs",
	"_forward_pre_hooks_with_kwargs", "_state_dict_hooks",
	"_load_state_dict_pre_hooks")


def _sha(t):
	c = t.detach().cpu().contiguous()
	return hashlib.sha256(str(c.dtype).encode() + str(tuple(c.shape)).encode()
		+ c.numpy().tobytes()).hexdigest()[:16]


class ModelAudit:
	"""Snapshot of everything C07 promises about a model: hook dictionaries of
	every sub-module, bytes of parameters and buffers, forward output and
	ordinary input-gradient on a fixed probe batch (odd batch size) in eval
	mode.  diff() recomputes and lists what changed."""

	def __init__(self, model, probe, probe_args=None):
		self.model = model
		self.probe = probe
		self.probe_args = probe_args
		self.before = self._snap()

	def _behaviour(self):
		# remember the mode of every sub-module (a model may be in a mixed
		# state, e.g. eval with one layer left in train mode)
		was = [(m, m.training) for m in self.model.modules()]
		saved = dict(CTL.counts), CTL.armed
		CTL.armed = None
		try:
			self.model.eval()
			x = self.probe.clone().requires_grad_()
			with torch.enable_grad():
				args = () if self.probe_args is None else self.probe_args
				y = self.model(x, *args)
				if isinstance(y, (tuple, list)):
					y = y[0]
				# ordinary gradients: w.r.t. the input and w.r.t. every
				# parameter (as a training step would take them)
				params = [p for p in self.model.parameters()]
				gs = torch.autograd.grad(y.sum(), [x] + params,
					allow_unused=True)
			return ("ok", _sha(y), tuple("-" if g is None else _sha(g)
				for g in gs))
		except Exception as e:
			return ("raise", type(e).__name__, str(e)[:200])
		finally:
			for m, flag in was:
				m.training = flag
			CTL.counts, CTL.armed = saved

	def _snap(self):
		hooks = {}
		attrs = {}
		for name, m in self.model.named_modules():
			hooks[name] = {d: sorted(getattr(m, d).keys()) for d in HOOK_DICTS
				if hasattr(m, d) and len(getattr(m, d)) > 0}
			attrs[name] = sorted(a for a in ("input", "output", "handles",
				"_NON_LINEAR_OPS") if a in m.__dict__)
		state = {k: _sha(v) for k, v in self.model.state_dict().items()}
		flags = {k: (bool(p.requires_grad), None if p.grad is None else
			_sha(p.grad)[:12]) for k, p in self.model.named_parameters()}
		return {"hooks": hooks, "state": state, "attrs": attrs,
			"flags": flags, "behaviour": self._behaviour()}

	def diff(self):
		after = self._snap()
		out = []
		for name, h in after["hooks"].items():
			b = self.before["hooks"].get(name, {})
			for d, keys in h.items():
				extra = [k for k in keys if k not in b.get(d, [])]
				if extra:
					out.append(("hooks", "%d leftover %s on module '%s' (%s)"
						% (len(extra), d, name, type(dict(
						self.model.named_modules())[name]).__name__)))
		for name, b in self.before["hooks"].items():
			h = after["hooks"].get(name, {})
			for d, keys in b.items():
				gone = [k for k in keys if k not in h.get(d, [])]
				if gone:
					out.append(("hooks", "%d hook(s) that were registered "
						"before the call were removed from %s of module '%s'"
						% (len(gone), d, name)))
		for k, v in after["state"].items():
			if self.before["state"].get(k) != v:
				out.append(("state", "parameter/buffer '%s' changed" % k))
		for k in self.before["state"]:
			if k not in after["state"]:
				out.append(("state", "parameter/buffer '%s' disappeared" % k))
		for k, v in after["flags"].items():
			b = self.before["flags"].get(k)
			if b is not None and b != v:
				out.append(("state", "parameter '%s': (requires_grad, "
					"accumulated .grad) changed from %s to %s" % (k, b, v)))
		if after["behaviour"] != self.before["behaviour"]:
			out.append(("behaviour", "probe forward/gradient: before=%s "
				"after=%s" % (self.before["behaviour"], after["behaviour"])))
		self.scratch = {n: a for n, a in after["attrs"].items() if a}
		return out


# ---- source-free line failpoints -------------------------------------------

def cleanup_lines(func):
	"""Line numbers (absolute, in the function's file) lexically inside an
	except handler or a finally body of func: cleanup code, not injected."""
	src = textwrap.dedent(inspect.getsource(func))
	first = func.__code__.co_firstlineno
	tree = ast.parse(src)
	out = set()

	def span(nodes):
		for n in nodes:
			for sub in ast.walk(n):
				if hasattr(sub, "lineno"):
					for l in range(sub.lineno, getattr(sub, "end_lineno",
						sub.lineno) + 1):
						out.add(first + l - 1)

	for node in ast.walk(tree):
		if isinstance(node, ast.Try):
			for h in node.handlers:
				span(h.body)
			span(node.finalbody)
	return out


def with_lines(func):
	"""Lines of `with` statements.  The interpreter returns to the `with`
	line on the normal exit path to call __exit__; those instructions are
	outside the block's exception-table range, so an exception injected at
	that LINE event would skip __exit__ (e.g. leave torch.no_grad() active
	for the rest of the process) - a failure real code cannot have there.
	The first line of the body and the line after the block are injected
	instead."""
	src = textwrap.dedent(inspect.getsource(func))
	first = func.__code__.co_firstlineno
	out = set()
	for node in ast.walk(ast.parse(src)):
		if isinstance(node, (ast.With, ast.AsyncWith)):
			last = max(getattr(i.context_expr, "end_lineno", node.lineno)
				for i in node.items)
			for l in range(node.lineno, last + 1):
				out.add(first + l - 1)
	return out


def unraisable_lines(func):
	"""Lines whose first instruction is a NOP (e.g. a bare `try:`).  CPython
	leaves that NOP outside every exception-table range because it cannot
	raise; an exception injected by a LINE callback there would bypass the
	enclosing try/finally, i.e. manufacture a failure the program cannot
	have.  Such lines are never injected."""
	import dis
	out = set()
	for ins in dis.get_instructions(func.__code__):
		if ins.starts_line is not None and ins.opname == "NOP":
			out.add(ins.starts_line)
	return out


class LineFailpoints:
	"""sys.monitoring LINE events scoped to one code object.  count() runs a
	thunk and returns the ordered list of (line, hit) points executed; inject()
	runs it again and raises exc at exactly one point."""

	TOOL = 4

	def __init__(self, func):
		self.func = func
		self.code = func.__code__
		self.mon = sys.monitoring
		self.hits = {}
		self.trace = []
		self.target = None
		self.exc = Injected
		self.fired = False
		self.active = False

	def _cb(self, code, line):
		if code is not self.code:
			return None
		h = self.hits.get(line, 0) + 1
		self.hits[line] = h
		if self.target is None:
			self.trace.append((line, h))
		elif (line, h) == self.target and not self.fired:
			self.fired = True
			raise self.exc("injected at line %d hit %d" % (line, h))
		return None

	def __enter__(self):
		m = self.mon
		if m.get_tool(self.TOOL) is None:
			m.use_tool_id(self.TOOL, "verif-failpoints")
		m.register_callback(self.TOOL, m.events.LINE, self._cb)
		m.set_local_events(self.TOOL, self.code, m.events.LINE)
		self.active = True
		return self

	def __exit__(self, *a):
		m = self.mon
		m.set_local_events(self.TOOL, self.code, 0)
		m.register_callback(self.TOOL, m.events.LINE, None)
		m.free_tool_id(self.TOOL)
		self.active = False

	def count(self, thunk):
		"""-> executed (line, hit) points; the thunk may itself raise (an
		operation that legitimately fails still has crash points before
		its failure)."""
		self.hits, self.trace, self.target, self.fired = {}, [], None, False
		try:
			thunk()
		except Exception as e:
			self.count_error = e
		return list(self.trace)

	def inject(self, thunk, point, exc=Injected):
		self.hits, self.trace, self.fired = {}, [], False
		self.target, self.exc = tuple(point), exc
		try:
			return thunk()
		finally:
			self.target = None
