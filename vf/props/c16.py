"""C16  Loaded loci, signals and motifs are exactly what the files contain.

Monitors (all at the API boundary; nothing in the repository is edited)

  * io.extract_loci: the harness generates a genome (strings with lower-case
    and N runs) and per-base signal tracks, writes them as FASTA / bigwig /
    BED files *and* keeps them as in-memory dicts / DataFrames, calls
    extract_loci in several supply modes (file-backed, in-memory, mixed) and
    compares every returned row with plain slicing of the generated strings /
    arrays around the documented midpoint start + (end - start) // 2.  Which
    loci may / must / must not be returned is decided by an independent list
    (edge rule, chroms filter, count filters, n_loci cap); an order-preserving
    alignment (dynamic programme) of returned rows against that list decides
    the case, so loci whose window merely *touches* a chromosome end may be
    kept or dropped.  The outputs of all supply modes must be identical.
  * io._interleave_loci directly: round-robin order after the chroms filter.
  * io.read_meme: MEME text generated from random motifs in an enumerated grid
    of file layouts (URL line, blank lines, final newline, CRLF, trailing
    whitespace, n_motifs); the returned dict must list every motif, in file
    order, under its name, with exactly the printed numbers.
"""

import os
import shutil
import tempfile

import numpy

from .. import gen

ID = "C16"
LEVEL = "exploration"
RULE = ("extract_loci: one case = one generated (genome of 2-4 chromosomes of "
	"200-3000 bp with lower-case/N runs, 0-3 signal tracks, 1-3 locus sets, "
	"in/out window, jitter, chroms, n_loci, count filters) configuration, "
	"executed in 2-4 supply modes (FASTA+bigwig+BED files, dicts+DataFrames, "
	"mixed) that must all satisfy the slicing oracle and agree with each "
	"other; class 'extract/edge-grid' enumerates window parities x jitter with "
	"loci whose expanded window starts at -1,0,1,2 and ends at L-2..L+1.  "
	"Non-trivial = at least two returned rows with different content were "
	"checked against the oracle (order and offsets visible) - or, for "
	"_interleave_loci, at least two sets / a chroms filter that removes rows; "
	"distinct = distinct parameter dicts.  read_meme: one case = one MEME "
	"text x n_motifs argument; the layout grid (1-6 motifs x URL x blank "
	"lines between motifs x blank line after MOTIF x final newline x LF/CRLF "
	"x trailing whitespace x header style) is enumerated completely per motif "
	"seed; non-trivial = the file has >= 2 motifs or a layout other than the "
	"test fixture's (URL + blank line + LF + final newline).")
ASSUMPTIONS = [
	"a locus whose expanded window (union of the extracted in/out windows "
	"incl. jitter) starts exactly at 0 or ends exactly at the chromosome "
	"length 'touches' the end: it may be kept or dropped; start < 0 or "
	"end > length must be dropped; anything else must be kept",
	"without signals and in_signals the out_window is not extracted and takes "
	"no part in the edge rule (tests/test_io.py::test_extract_loci_seq_"
	"out_window); with in_signals but no signals both readings are accepted",
	"even windows are [mid - w/2, mid + w/2), odd windows [mid - w//2, "
	"mid + w//2 + 1), both widened by max_jitter on each side (DESIGN.md)",
	"count filters use the returned signal row of track target_idx; kept iff "
	"min_counts <= sum <= max_counts; a sum equal to a threshold, or (with "
	"jitter) a decision that differs between the jittered and the plain "
	"out window, is accepted either way",
	"loci on a chromosome not in `chroms` must be dropped, also when that "
	"chromosome is absent from the genome",
	"extract_loci raising when no locus at all must be returned is a refusal",
	"bigwig positions without data may be returned as 0 or NaN",
	"DataFrames are passed with the column names chrom/start/end used by "
	"tests/test_io.py; other column names are probed separately and a raise "
	"there is counted as refusal (statement silent)",
	"read_meme: key = text after 'MOTIF ' with trailing whitespace removed; "
	"4-letter alphabets, 'letter-probability matrix: alength= 4 w= W ...' "
	"lines; blank lines are varied between motifs, after the MOTIF line and "
	"at the end of the file, never inside a matrix; motif names are unique",
	"probabilities are printed with 6 decimals; expected numbers are "
	"float(text), so equality is exact",
]
REQUIRED = {
	"extract_rows_checked": 200,
	"extract_mode_pairs_compared": 30,
	"extract_locus_touch": 10,
	"extract_locus_cross": 10,
	"extract_locus_inside_by_one": 10,
	"extract_odd_in_window": 10,
	"extract_odd_out_window": 10,
	"extract_in_lt_out": 5,
	"extract_in_gt_out": 5,
	"extract_jitter": 10,
	"extract_multiset_unequal": 5,
	"extract_chrom_filtered_loci": 5,
	"extract_cap_binding": 3,
	"extract_count_filtered_loci": 5,
	"interleave_calls": 20,
	"meme_files": 100,
	"meme_last_row_is_last_line": 10,
	"meme_motif_directly_after_matrix": 10,
	"meme_crlf": 10,
}
TIMEOUT = {"quick": 900, "thorough": 5400}

WORK = os.path.join(os.path.dirname(os.path.dirname(os.path.dirname(
	os.path.abspath(__file__)))), ".work")
_UNIT_DIR = [None]

MUST, EITHER, OMIT = "must", "either", "omit"

CHROM_NAMES = ["chr1", "chr2", "chr3", "chr10", "chrX", "chrY", "chrM", "chr2L",
	"scaffold_7", "chrUn_KI270742v1", "ctg12", "I", "IV"]
ABSENT = "chrAbsent9"


# --------------------------------------------------------------------------
# temp dirs
# --------------------------------------------------------------------------

def case_dir():
	base = _UNIT_DIR[0] or WORK
	os.makedirs(base, exist_ok=True)
	return tempfile.mkdtemp(prefix="c16-", dir=base)


# --------------------------------------------------------------------------
# genome / signals (harness-owned data, regenerated from the params)
# --------------------------------------------------------------------------

def make_genome(gseed, chroms):
	"""-> {name: str} with lower-case runs and N / n runs."""
	genome = {}
	for name, L in chroms:
		rng = gen.nprng("C16-genome", gseed, name, L)
		a = numpy.frombuffer(b"ACGT", dtype=numpy.uint8)[rng.integers(0, 4,
			size=L)].copy()
		for _ in range(int(rng.integers(1, 5))):
			s = int(rng.integers(0, L))
			n = int(rng.integers(1, max(2, L // 6)))
			a[s:s + n] |= 0x20                      # lower case
		nruns = []
		if rng.random() < 0.5:
			nruns.append((0, int(rng.integers(1, 25))))
		if rng.random() < 0.5:
			n = int(rng.integers(1, 25))
			nruns.append((L - n, n))
		for _ in range(int(rng.integers(0, 3))):
			nruns.append((int(rng.integers(0, L)), int(rng.integers(1, 16))))
		for s, n in nruns:
			a[s:s + n] = ord("n") if rng.random() < 0.3 else ord("N")
		genome[name] = a.tobytes().decode("ascii")
	return genome


def onehot_table(s):
	"""Own encoder: str -> (4, L) int8; anything but ACGT (after upper-casing)
	gives an all-zero column."""
	up = numpy.frombuffer(s.upper().encode("ascii"), dtype=numpy.uint8)
	t = numpy.zeros((4, len(s)), dtype=numpy.int8)
	for k, ch in enumerate(b"ACGT"):
		t[k] = (up == ch)
	return t


def decode_cols(t):
	out = []
	for col in numpy.asarray(t).T:
		nz = numpy.nonzero(col)[0]
		if len(nz) == 1 and col[nz[0]] == 1:
			out.append("ACGT"[nz[0]])
		elif len(nz) == 0:
			out.append("N")
		else:
			out.append("?")
	return "".join(out)


def make_signals(gseed, chroms, n_tracks, tag):
	"""-> list of {name: float32 array}; values are multiples of 0.25 in
	[0, 8) (sums exact in float32/float64), with constant and zero runs."""
	tracks = []
	for t in range(n_tracks):
		d = {}
		for name, L in chroms:
			rng = gen.nprng("C16-signal", tag, gseed, t, name, L)
			v = rng.integers(1, 32, size=L).astype(numpy.float64) / 4.0
			for _ in range(int(rng.integers(2, 8))):
				s = int(rng.integers(0, L))
				n = int(rng.integers(1, max(2, L // 10)))
				v[s:s + n] = float(rng.integers(1, 32)) / 4.0
			for _ in range(int(rng.integers(1, 5))):
				s = int(rng.integers(0, L))
				n = int(rng.integers(1, max(2, L // 12)))
				v[s:s + n] = 0.0
			d[name] = v.astype(numpy.float32)
		tracks.append(d)
	return tracks


def write_fasta(path, genome, chroms, line_width, desc):
	with open(path, "w") as fh:
		for k, (name, L) in enumerate(chroms):
			s = genome[name]
			fh.write(">" + name + (" synthetic contig %d len=%d" % (k, L)
				if desc else "") + "\n")
			w = line_width or L
			for p in range(0, L, w):
				fh.write(s[p:p + w] + "\n")
	fai = path + ".fai"
	if os.path.exists(fai):
		os.remove(fai)


def write_bigwig(path, track, chroms, style):
	import pyBigWig
	bw = pyBigWig.open(path, "w")
	bw.addHeader([(name, int(L)) for name, L in chroms])
	for name, L in chroms:
		v = track[name]
		if style == "fixed":
			bw.addEntries(name, 0, values=[float(x) for x in v], span=1,
				step=1)
			continue
		# run-length intervals; style 'gaps' leaves zero runs without data
		cut = numpy.nonzero(numpy.diff(v) != 0)[0] + 1
		starts = numpy.concatenate([[0], cut])
		ends = numpy.concatenate([cut, [L]])
		S, E, V = [], [], []
		for s, e in zip(starts.tolist(), ends.tolist()):
			if style == "gaps" and v[s] == 0:
				continue
			S.append(int(s))
			E.append(int(e))
			V.append(float(v[s]))
		if S:
			bw.addEntries([name] * len(S), S, ends=E, values=V)
	bw.close()


def write_bed(path, loci, six):
	with open(path, "w") as fh:
		for k, (c, s, e) in enumerate(loci):
			row = [c, str(s), str(e)]
			if six:
				row += ["peak%d" % k, str((k * 37) % 1000), "+-"[k % 2]]
			fh.write("\t".join(row) + "\n")


def make_df(loci, form):
	import pandas
	d = {"chrom": [c for c, _, _ in loci], "start": [int(s) for _, s, _ in
		loci], "end": [int(e) for _, _, e in loci]}
	if form in ("df6", "df6-reindexed"):
		d["name"] = ["peak%d" % k for k in range(len(loci))]
		d["score"] = [float(k) for k in range(len(loci))]
	df = pandas.DataFrame(d)
	if not len(loci):
		df = df.astype({"chrom": object, "start": "int64", "end": "int64"})
	if form.endswith("reindexed"):
		df.index = [3 * k + 5 for k in range(len(loci))][::-1]
	elif form.startswith("df-cols:"):
		names = form[len("df-cols:"):].split(",")
		df.columns = [int(x) if x.isdigit() else x for x in names]
	return df


# --------------------------------------------------------------------------
# oracle
# --------------------------------------------------------------------------

def interleave_expected(sets, chroms_filter):
	"""Round-robin over the sets after filtering: row r of set i has rank
	(r, i)."""
	kept = []
	for lo in sets:
		kept.append([tuple(x) for x in lo if chroms_filter is None or x[0] in
			chroms_filter])
	out = []
	r = 0
	while any(r < len(k) for k in kept):
		for k in kept:
			if r < len(k):
				out.append(k[r])
		r += 1
	return out


def win(mid, w, j):
	return mid - w // 2 - j, mid + w // 2 + j + (w % 2)


def in_range(x, lo, hi):
	"""-> True / False / None (equal to a threshold, not outside the other)"""
	if lo is not None and x < lo:
		return False
	if hi is not None and x > hi:
		return False
	if (lo is not None and x == lo) or (hi is not None and x == hi):
		return None
	return True


def candidates(p, genome_len, sig_tracks, filter_first=False):
	"""Independent list of what may be returned.  -> list of dicts with
	chrom, start, end, mid, status, reason, windows.  filter_first: the
	chroms filter is applied to every set before interleaving (documented in
	_interleave_loci); otherwise the interleaved list is filtered, excluded
	loci staying in the list with status OMIT."""
	iw = p["in_window"]
	S = p["n_signals"]
	S2 = p["n_in_signals"]
	ow = p["out_window"] if p["out_window"] is not None else 1000
	j = p["max_jitter"]
	filt = p["chroms_filter"]
	order = interleave_expected([s["loci"] for s in p["sets"]], filt if
		filter_first else None)
	out = []
	for c, s, e in order:
		mid = s + (e - s) // 2
		a_in, b_in = win(mid, iw, j)
		a_out, b_out = win(mid, ow, j)
		c_out = win(mid, ow, 0)
		d = {"chrom": c, "start": s, "end": e, "mid": mid, "in": (a_in, b_in),
			"out": (a_out, b_out) if S else None, "reason": ""}
		if filt is not None and c not in filt:
			d["status"], d["reason"] = OMIT, "excluded-chrom"
			out.append(d)
			continue
		L = genome_len[c]

		def edge(a, b):
			if a < 0 or b > L:
				return OMIT
			if a == 0 or b == L:
				return EITHER
			return MUST
		if S:
			st = edge(min(a_in, a_out), max(b_in, b_out))
		elif S2:
			s1 = edge(a_in, b_in)
			s2 = edge(min(a_in, a_out), max(b_in, b_out))
			st = s1 if s1 == s2 else (OMIT if a_in < 0 or b_in > L else
				EITHER)
		else:
			st = edge(a_in, b_in)
		d["status"] = st
		d["edge"] = {"a": min(a_in, a_out) if S else a_in,
			"b": max(b_in, b_out) if S else b_in, "L": L}
		if st == OMIT:
			d["reason"] = "crosses-end"
		elif st == EITHER:
			d["reason"] = "touches-end"
		if st != OMIT and S and (p["min_counts"] is not None or
			p["max_counts"] is not None):
			v = sig_tracks[p["target_idx"]][c].astype(numpy.float64)
			tot = float(v[a_out:b_out].sum())
			dec = in_range(tot, p["min_counts"], p["max_counts"])
			d["count"] = tot
			if j:
				core = float(v[c_out[0]:c_out[1]].sum())
				dec2 = in_range(core, p["min_counts"], p["max_counts"])
				if dec2 != dec:
					dec = None
			if dec is False:
				d["status"], d["reason"] = OMIT, "count-filter"
			elif dec is None:
				d["status"] = EITHER
				d["reason"] = (d["reason"] + "+count-tie").strip("+")
		out.append(d)
	return out


def align(n, status, eq, cap, relaxed=False):
	"""Order-preserving assignment of the n returned rows to candidates.
	-> list of (row, candidate) pairs or None."""
	m = len(status)
	feas = [[False] * (m + 1) for _ in range(n + 1)]
	prev = {}
	feas[0][0] = True
	for j in range(m):
		st = EITHER if relaxed else status[j]
		for i in range(n + 1):
			if not feas[i][j]:
				continue
			if st != MUST and not feas[i][j + 1]:
				feas[i][j + 1] = True
				prev[(i, j + 1)] = (i, j, False)
			if st != OMIT and i < n and not feas[i + 1][j + 1] and eq(i, j):
				feas[i + 1][j + 1] = True
				prev[(i + 1, j + 1)] = (i, j, True)
	end = None
	if cap is not None and n == cap:
		for j in range(m + 1):
			if feas[n][j]:
				end = j
				break
	elif feas[n][m]:
		end = m
	if end is None:
		return None
	pairs = []
	i, j = n, end
	while (i, j) != (0, 0):
		pi, pj, mt = prev[(i, j)]
		if mt:
			pairs.append((pi, pj))
		i, j = pi, pj
	return pairs[::-1]


def norm_float(a, gaps):
	a = numpy.ascontiguousarray(numpy.asarray(a), dtype=numpy.float64)
	if gaps:
		a = numpy.where(numpy.isnan(a), 0.0, a)
	return a + 0.0


def judge_output(p, cands, exp, out, gaps):
	"""Compare one extract_loci return value with the oracle.
	-> (None, info) when it holds, else (mech, detail)."""
	import torch
	S, S2 = p["n_signals"], p["n_in_signals"]
	iw, j = p["in_window"], p["max_jitter"]
	ow = p["out_window"] if p["out_window"] is not None else 1000
	n_ret = 1 + (1 if S else 0) + (1 if S2 else 0)
	if n_ret == 1:
		parts = [out]
	else:
		if not isinstance(out, (list, tuple)) or len(out) != n_ret:
			return "C16/extract-return-structure", {"what": "expected %d "
				"returned tensors" % n_ret, "got": type(out).__name__ + (
				" of %d" % len(out) if isinstance(out, (list, tuple)) else "")}
		parts = list(out)
	for t in parts:
		if not isinstance(t, torch.Tensor):
			return "C16/extract-return-structure", {"what": "returned value "
				"is not a tensor", "got": type(t).__name__}
	X = parts[0].detach().cpu().numpy()
	want = [(4, iw + 2 * j)]
	if S:
		want.append((S, ow + 2 * j))
	if S2:
		want.append((S2, iw + 2 * j))
	n = X.shape[0] if X.ndim else -1
	for t, w in zip(parts, want):
		if t.dim() != 3 or tuple(t.shape[1:]) != w or t.shape[0] != n:
			return "C16/extract-shape", {"what": "tensor shapes", "got":
				[list(t.shape) for t in parts], "expected_trailing": [list(w)
				for w in want]}
	Xn = numpy.ascontiguousarray(X, dtype=numpy.float64) + 0.0
	rows = [[Xn[i].tobytes() for i in range(n)]]
	arrs = [Xn]
	for t in parts[1:]:
		a = norm_float(t.detach().cpu().numpy(), gaps)
		arrs.append(a)
		rows.append([a[i].tobytes() for i in range(n)])
	status = [c["status"] for c in cands]
	cap = p["n_loci"]

	def eq_on(which):
		def eq(i, k):
			e = exp[k]
			if e is None:
				return False
			return all(rows[w][i] == e[w] for w in which)
		return eq
	allp = list(range(len(parts)))
	if cap is not None and n > cap:
		return "C16/extract-n-loci-cap", {"what": "more rows than n_loci",
			"rows": n, "n_loci": cap}
	pairs = align(n, status, eq_on(allp), cap)
	if pairs is not None:
		return None, {"pairs": pairs, "rows": rows, "cands": cands}

	def describe(k):
		c = cands[k]
		return {"candidate_index": k, "locus": [c["chrom"], c["start"],
			c["end"]], "midpoint": c["mid"], "status": c["status"],
			"reason": c["reason"], "in_window": list(c["in"]),
			"out_window": list(c["out"]) if c["out"] else None,
			"edge": c.get("edge"), "count": c.get("count")}

	def row_detail(i, k):
		d = {"row": i}
		d.update(describe(k))
		d["got_sequence"] = decode_cols(arrs[0][i])
		e = exp[k]
		if e is not None:
			d["expected_sequence"] = decode_cols(numpy.frombuffer(e[0],
				dtype=numpy.float64).reshape(4, -1))
			for w in range(1, len(parts)):
				if rows[w][i] != e[w]:
					d["got_signal_%d" % w] = arrs[w][i].tolist()
					d["expected_signal_%d" % w] = numpy.frombuffer(e[w],
						dtype=numpy.float64).reshape(arrs[w][i].shape).tolist()
		return d

	# content right, kept set wrong?
	rel = align(n, status, eq_on(allp), cap, relaxed=True)
	if rel is not None:
		matched = {k for _, k in rel}
		last = max(matched) if matched else -1
		bad_kept = [k for k in sorted(matched) if status[k] == OMIT]
		horizon = len(cands) if (cap is None or n < cap) else last + 1
		missing = [k for k in range(horizon) if status[k] == MUST and k not in
			matched]
		if bad_kept:
			k = bad_kept[0]
			mech = {"excluded-chrom": "C16/extract-kept-excluded-chrom",
				"count-filter": "C16/extract-kept-count-filter-fail",
				"crosses-end": "C16/extract-kept-crossing-locus"}.get(
				cands[k]["reason"], "C16/extract-locus-wrongly-kept")
			return mech, {"what": "a locus that must be dropped was returned",
				"locus": describe(k), "rows": n}
		if missing:
			k = missing[0]
			mech = "C16/extract-locus-wrongly-omitted"
			if cap is not None and k > last and cap <= sum(1 for s in status
				if s == MUST):
				mech = "C16/extract-n-loci-cap"     # stopped before the cap
			return mech, {"what": "a locus whose window lies strictly inside "
				"its chromosome (allowed chromosome, counts within the "
				"filters) is missing from the result", "locus": describe(k),
				"rows": n, "n_loci": cap}
	# sequences fine, signals not?
	if len(parts) > 1:
		ps = align(n, status, eq_on([0]), cap)
		if ps is not None:
			for i, k in ps:
				for w in range(1, len(parts)):
					if exp[k] is None or rows[w][i] != exp[k][w]:
						name = "signal" if (w == 1 and S) else "in-signal"
						return "C16/extract-%s-window" % name, dict(
							row_detail(i, k), what="returned %s row differs "
							"from the slice of the generated track" % name)
		ps = align(n, status, eq_on(allp[1:]), cap)
		if ps is not None:
			for i, k in ps:
				if exp[k] is None or rows[0][i] != exp[k][0]:
					return "C16/extract-sequence-window", dict(row_detail(i,
						k), what="returned one-hot row differs from the "
						"slice of the generated chromosome string")
	else:
		ps = align(n, status, lambda i, k: exp[k] is not None, cap)
		if ps is not None:
			for i, k in ps:
				if rows[0][i] != exp[k][0]:
					return "C16/extract-sequence-window", dict(row_detail(i,
						k), what="returned one-hot row differs from the "
						"slice of the generated chromosome string")
	# same rows in another order?
	got = sorted(tuple(rows[w][i] for w in allp) for i in range(n))
	pool = [tuple(exp[k]) for k in range(len(cands)) if exp[k] is not None
		and status[k] != OMIT]
	mustp = sorted(tuple(exp[k]) for k in range(len(cands)) if status[k]
		== MUST)
	if (cap is None and got == mustp) or (got != [] and all(g in pool for g
		in got) and len(got) >= min(len(mustp), cap or len(mustp))):
		first = None
		k_must = [k for k in range(len(cands)) if status[k] != OMIT and
			exp[k] is not None]
		for i in range(min(n, len(k_must))):
			if tuple(rows[w][i] for w in allp) != tuple(exp[k_must[i]]):
				first = row_detail(i, k_must[i])
				break
		return "C16/extract-row-order", {"what": "the returned rows are the "
			"expected ones but not in round-robin input order",
			"first_difference": first}
	return "C16/extract-mismatch", {"what": "returned rows cannot be aligned "
		"with the expected loci", "rows": n, "expected_must": len(mustp),
		"first_row_sequence": decode_cols(arrs[0][0]) if n else None,
		"first_candidates": [describe(k) for k in range(min(3, len(cands)))]}


# --------------------------------------------------------------------------
# extract_loci: one case
# --------------------------------------------------------------------------

def build_inputs(p, d):
	"""Files + in-memory objects for a case.  -> dict"""
	chroms = [tuple(c) for c in p["chroms"]]
	genome = make_genome(p["gseed"], chroms)
	tables = {c: onehot_table(genome[c]) for c, _ in chroms}
	sig = make_signals(p["gseed"], chroms, p["n_signals"], "out")
	insig = make_signals(p["gseed"], chroms, p["n_in_signals"], "in")
	need_files = any(m[0] == "fasta" for m in p["modes"])
	need_bw = any(m[1] in ("bw", "mixed") for m in p["modes"])
	io = {"genome": genome, "tables": tables, "sig": sig, "insig": insig}
	if need_files:
		io["fasta"] = os.path.join(d, "genome.fa")
		write_fasta(io["fasta"], genome, chroms, p["line_width"], p["desc"])
	if need_bw:
		io["bw"] = []
		for t, tr in enumerate(sig):
			path = os.path.join(d, "out%d.bw" % t)
			write_bigwig(path, tr, chroms, p["bw_style"])
			io["bw"].append(path)
		io["inbw"] = []
		for t, tr in enumerate(insig):
			path = os.path.join(d, "in%d.bw" % t)
			write_bigwig(path, tr, chroms, p["bw_style"])
			io["inbw"].append(path)
	loci = []
	for k, s in enumerate(p["sets"]):
		if s["form"].startswith("file"):
			path = os.path.join(d, "set%d.bed" % k)
			write_bed(path, s["loci"], s["form"] == "file6")
			loci.append(path)
		else:
			loci.append(make_df(s["loci"], s["form"]))
	if p["wrap"] == "bare" and len(loci) == 1:
		io["loci"] = loci[0]
	elif p["wrap"] == "tuple":
		io["loci"] = tuple(loci)
	else:
		io["loci"] = loci
	return io


def call_kwargs(p, io, mode):
	seqm, sigm = mode
	kw = {"in_window": p["in_window"]}
	if p["out_window"] is not None:
		kw["out_window"] = p["out_window"]
	if p["max_jitter"] or p.get("pass_jitter"):
		kw["max_jitter"] = p["max_jitter"]
	for k in ("min_counts", "max_counts", "n_loci"):
		if p[k] is not None:
			kw[k] = p[k]
	if p["n_signals"] and (p["target_idx"] or p["min_counts"] is not None):
		kw["target_idx"] = p["target_idx"]
	if p["chroms_filter"] is not None:
		kw["chroms"] = (tuple(p["chroms_filter"]) if p.get("chroms_tuple")
			else list(p["chroms_filter"]))
	if seqm == "fasta":
		fai = io["fasta"] + ".fai"
		if os.path.exists(fai):
			os.remove(fai)
		seqs = io["fasta"]
	else:
		dt = {"int8": numpy.int8, "float32": numpy.float32,
			"int64": numpy.int64}[p.get("dict_dtype", "int8")]
		seqs = {c: t.astype(dt) for c, t in io["tables"].items()}

	def tracks(mem, files):
		if not mem:
			return None
		if sigm == "bw":
			return list(files)
		if sigm == "dict":
			return [{c: v.copy() for c, v in tr.items()} for tr in mem]
		return [files[t] if t % 2 == 0 else {c: v.copy() for c, v in
			mem[t].items()} for t in range(len(mem))]
	kw["signals"] = tracks(io["sig"], io.get("bw"))
	kw["in_signals"] = tracks(io["insig"], io.get("inbw"))
	if kw["signals"] is None:
		del kw["signals"]
	if kw["in_signals"] is None:
		del kw["in_signals"]
	return seqs, kw


def expected_rows(p, cands, io):
	"""bytes of the float64 rows every non-crossing candidate would have."""
	exp = []
	for c in cands:
		if c["chrom"] not in io["tables"]:
			exp.append(None)
			continue
		L = io["tables"][c["chrom"]].shape[1]
		a, b = c["in"]
		if a < 0 or b > L:
			exp.append(None)
			continue
		e = [(io["tables"][c["chrom"]][:, a:b].astype(numpy.float64)
			+ 0.0).tobytes()]
		if p["n_signals"]:
			a2, b2 = c["out"]
			if a2 < 0 or b2 > L:
				exp.append(None)
				continue
			e.append(numpy.ascontiguousarray(numpy.stack([tr[c["chrom"]][
				a2:b2] for tr in io["sig"]]), dtype=numpy.float64).tobytes())
		if p["n_in_signals"]:
			e.append(numpy.ascontiguousarray(numpy.stack([tr[c["chrom"]][a:b]
				for tr in io["insig"]]), dtype=numpy.float64).tobytes())
		exp.append(e)
	return exp


def observe_case(p, cands, rec):
	iw = p["in_window"]
	ow = p["out_window"] if p["out_window"] is not None else 1000
	if iw % 2:
		rec.count("extract_odd_in_window")
	if p["n_signals"]:
		if ow % 2:
			rec.count("extract_odd_out_window")
		if iw < ow:
			rec.count("extract_in_lt_out")
		if iw > ow:
			rec.count("extract_in_gt_out")
	if p["max_jitter"]:
		rec.count("extract_jitter")
	rec.maxv("extract_max_jitter", p["max_jitter"])
	sizes = [len(s["loci"]) for s in p["sets"]]
	if len(sizes) > 1 and len(set(sizes)) > 1:
		rec.count("extract_multiset_unequal")
	rec.setadd("extract_set_forms", "+".join(s["form"] for s in p["sets"]))
	rec.setadd("extract_windows", "%d/%s/%d" % (iw, p["out_window"],
		p["max_jitter"]), cap=400)
	for c in cands:
		r = c["reason"]
		if r == "excluded-chrom":
			rec.count("extract_chrom_filtered_loci")
		elif r == "count-filter":
			rec.count("extract_count_filtered_loci")
		elif r == "crosses-end":
			rec.count("extract_locus_cross")
		elif r.startswith("touches-end"):
			rec.count("extract_locus_touch")
		e = c.get("edge")
		if e and c["status"] == MUST and (e["a"] == 1 or e["b"] == e["L"] - 1):
			rec.count("extract_locus_inside_by_one")
		if (c["end"] - c["start"]) % 2:
			rec.count("extract_odd_length_loci")
	n_must = sum(1 for c in cands if c["status"] == MUST)
	if p["n_loci"] is not None and p["n_loci"] < n_must:
		rec.count("extract_cap_binding")


def run_extract(cls, p, rec):
	from tangermeme.io import extract_loci
	d = case_dir()
	try:
		io = build_inputs(p, d)
		glen = {c: L for c, L in p["chroms"]}
		cands = candidates(p, glen, io["sig"], filter_first=True)
		exp = expected_rows(p, cands, io)
		# the statement does not say whether the chroms filter acts before
		# or after interleaving: both orders are accepted
		cands2 = candidates(p, glen, io["sig"])
		exp2 = expected_rows(p, cands2, io)
		if [(c["chrom"], c["start"], c["end"]) for c in cands] != [(c["chrom"],
			c["start"], c["end"]) for c in cands2 if c["reason"] !=
			"excluded-chrom"]:
			rec.count("extract_filter_order_matters")
		gaps = p["bw_style"] == "gaps"
		n_must = sum(1 for c in cands if c["status"] == MUST)
		results = []
		for mode in p["modes"]:
			seqs, kw = call_kwargs(p, io, mode)
			st, out = gen.call(extract_loci, io["loci"], seqs, **kw)
			if st == "raise":
				if n_must == 0:
					rec.refusal(cls, p, "no locus must be returned: %r" % (
						out,))
					return
				if any(s["form"].startswith("df-cols:") for s in p["sets"]):
					rec.refusal(cls, p, "DataFrame with other column names: "
						"%s" % type(out).__name__)
					return
				rec.violation(cls, p, {"what": "extract_loci raised although "
					"%d loci must be returned" % n_must, "mode": mode,
					"error": repr(out)[:400]}, mech="C16/extract-raised")
				return
			mech, info = judge_output(p, cands, exp, out, gaps)
			if mech is not None:
				mech2, info2 = judge_output(p, cands2, exp2, out, gaps)
				if mech2 is None or (mech == "C16/extract-mismatch" and
					mech2 == "C16/extract-kept-excluded-chrom"):
					mech, info = mech2, info2
			if mech is not None:
				info = dict(info, mode=mode)
				rec.violation(cls, p, info, mech=mech)
				return
			results.append((mode, info))
		# all supply modes must return the same thing
		m0, i0 = results[0]
		for m1, i1 in results[1:]:
			rec.count("extract_mode_pairs_compared")
			if i0["rows"] != i1["rows"]:
				rec.violation(cls, p, {"what": "file-backed and in-memory "
					"inputs give different results (each acceptable on its "
					"own)", "modes": [m0, m1], "rows": [len(i0["rows"][0]),
					len(i1["rows"][0])]}, mech="C16/extract-file-vs-memory")
				return
		observe_case(p, cands2, rec)
		for _, info in results:
			cl = info["cands"]
			kept = {k for _, k in info["pairs"]}
			for k, c in enumerate(cl):
				if c["status"] == EITHER and c["reason"] == "touches-end":
					side = "start" if c["edge"]["a"] == 0 else "end"
					rec.count("extract_touching_%s_%s" % (side, "kept" if k in
						kept else "dropped"))
		rows = results[0][1]["rows"]
		n = len(rows[0])
		rec.count("extract_rows_checked", n * len(results))
		rec.count("extract_calls", len(results))
		for m, _ in results:
			rec.setadd("extract_modes", "+".join(m))
		distinct = len({tuple(r[i] for r in rows) for i in range(n)})
		rec.held(cls, p, nontrivial=distinct >= 2)
	finally:
		shutil.rmtree(d, ignore_errors=True)


# --------------------------------------------------------------------------
# extract_loci: generators
# --------------------------------------------------------------------------

def locus_with_mid(r, mid, L):
	"""A bed interval whose documented midpoint is `mid`."""
	if mid < 0 or mid > L:
		return None
	ln = r.choice([0, 1, 2, 3, 7, 10, 11, 25, 50, 101, 200, 333])
	ln = min(ln, 2 * mid + 1)
	while mid - ln // 2 + ln > L and ln > 0:
		ln -= 1
	s = mid - ln // 2
	return [s, s + ln]


def gen_extract(r, profile):
	nch = r.randint(2, 4)
	names = r.sample(CHROM_NAMES, nch)
	lens = []
	for _ in range(nch):
		lens.append(r.choice([200, 201, r.randint(200, 400), r.randint(400,
			1200), r.randint(1200, 3000)]))
	Lmin = min(lens)
	S = 0 if profile == "seq-only" else r.choice([1, 1, 2, 3])
	S2 = 0
	if profile == "in-signals":
		S2 = r.choice([1, 2])
		if r.random() < 0.2:
			S = 0
	j = 0 if r.random() < 0.45 else r.choice([1, 2, 3, 4, 5, 6, 7, 7, 12, 25])
	if profile == "counts" and r.random() < 0.7:
		j = 0
	room = Lmin - 2 * j - 6
	wmax = max(2, min(room, r.choice([12, 40, 120, 400])))

	def pick():
		return r.choice([1, 2, 3, 4, 5, r.randint(1, wmax), r.randint(1,
			wmax), r.randint(max(1, wmax // 2), wmax)])
	iw = min(pick(), wmax)
	rel = r.choice(["lt", "gt", "eq", "any"])
	ow = min(pick(), wmax)
	if rel == "eq":
		ow = iw
	elif rel == "lt" and iw >= ow:
		iw, ow = (ow, iw) if iw != ow else (iw, min(wmax, iw + r.choice([1, 2,
			5])))
	elif rel == "gt" and iw <= ow:
		iw, ow = (ow, iw) if iw != ow else (min(wmax, iw + r.choice([1, 2,
			5])), ow)
	out_window = ow
	if not S and not S2 and r.random() < 0.5:
		out_window = None if r.random() < 0.5 else r.choice([1000, 5, 4001])
	use_out = bool(S)
	ow_eff = out_window if out_window is not None else 1000
	Wl = max(iw // 2, ow_eff // 2 if use_out else 0) + j
	Wr = max(iw // 2 + iw % 2, (ow_eff // 2 + ow_eff % 2) if use_out else 0
		) + j
	filt = None
	if profile == "chroms" or r.random() < 0.2:
		k = r.randint(1, nch - 1) if nch > 1 else 1
		filt = r.sample(names, k)
		if r.random() < 0.3:
			filt.append("chrNotAnywhere")
		r.shuffle(filt)
	nsets = r.choice([2, 3]) if profile == "multi-set" else r.choice([1, 1, 1,
		2, 3])
	sizes = [r.randint(1, 12) for _ in range(nsets)]
	if nsets > 1 and len(set(sizes)) == 1:
		sizes[0] += r.randint(1, 4)
	edge_p = 0.6 if profile == "edges" else 0.25
	sets = []
	for n in sizes:
		loci = []
		while len(loci) < n:
			ci = r.randrange(nch)
			c, L = names[ci], lens[ci]
			if filt is not None and r.random() < 0.12:
				loci.append([ABSENT, r.randint(0, 500), r.randint(500, 900)])
				continue
			u = r.random()
			if u < edge_p / 2:
				mid = r.choice([-1, 0, 1, 2]) + Wl
			elif u < edge_p:
				mid = L + r.choice([-2, -1, 0, 1]) - Wr
			elif u < edge_p + 0.1:
				mid = r.randint(0, L)
			else:
				lo, hi = Wl + 1, L - Wr - 1
				mid = r.randint(lo, hi) if lo <= hi else r.randint(0, L)
			iv = locus_with_mid(r, mid, L)
			if iv is None:
				continue
			loci.append([c] + iv)
		if not sets:
			ok = [q for q in range(nch) if filt is None or names[q] in filt]
			for _ in range(2):
				q = r.choice(ok)
				lo, hi = Wl + 1, lens[q] - Wr - 1
				if lo <= hi:
					iv = locus_with_mid(r, r.randint(lo, hi), lens[q])
					loci.insert(r.randint(0, len(loci)), [names[q]] + iv)
		if r.random() < 0.2 and loci:
			loci.append(list(r.choice(loci)))      # duplicated locus
		form = r.choice(["file", "file", "file6", "df", "df", "df6",
			"df-reindexed", "df6-reindexed"])
		sets.append({"form": form, "loci": loci})
	modes = [["fasta", "bw"], ["dict", "dict"]]
	extra = [["fasta", "dict"], ["dict", "bw"], ["fasta", "mixed"],
		["dict", "mixed"]]
	if S or S2:
		modes.append(r.choice(extra))
	p = {"gseed": r.getrandbits(40), "chroms": [[c, L] for c, L in zip(names,
		lens)], "line_width": r.choice([0, 60, 61, 80, 7, 50, 1]),
		"desc": r.random() < 0.4, "bw_style": r.choice(["fixed", "intervals",
		"gaps"]), "n_signals": S, "n_in_signals": S2, "in_window": iw,
		"out_window": out_window, "max_jitter": j, "pass_jitter":
		r.random() < 0.3, "chroms_filter": filt, "chroms_tuple":
		r.random() < 0.2, "n_loci": None, "min_counts": None,
		"max_counts": None, "target_idx": r.randrange(S) if S else 0,
		"sets": sets, "wrap": r.choice(["bare", "list", "tuple"]),
		"dict_dtype": r.choice(["int8", "int8", "float32", "int64"]),
		"modes": modes}
	if profile == "counts" and S:
		# bigwigs with positions without data are included: the returned
		# signal is 0 there, and the count filters are judged on exactly
		# those values (the generated track holds 0 at the gaps)
		p["bw_style"] = r.choice(["fixed", "intervals", "gaps", "gaps"])
	if (profile == "counts" and S) or (S and r.random() < 0.1):
		glen = dict(zip(names, lens))
		sig = make_signals(p["gseed"], [tuple(x) for x in p["chroms"]], S,
			"out")
		probe = dict(p, min_counts=-1.0)
		sums = sorted(c["count"] for c in candidates(probe, glen, sig) if
			"count" in c)
		if sums:
			def thr(q):
				v = sums[min(len(sums) - 1, int(q * len(sums)))]
				return v if r.random() < 0.15 else v + r.choice([-0.125,
					0.125])
			kind = r.choice(["min", "max", "both"])
			if kind in ("min", "both"):
				p["min_counts"] = thr(r.choice([0.2, 0.4, 0.5]))
			if kind in ("max", "both"):
				p["max_counts"] = thr(r.choice([0.6, 0.8, 0.95]))
			if r.random() < 0.3 and p["min_counts"] is not None:
				p["min_counts"] = int(p["min_counts"])   # integer threshold
			if r.random() < 0.2:
				# thresholds that are exactly zero ("only loci without any
				# signal" / "at least nothing")
				p["max_counts"] = r.choice([0, 0.0])
				p["min_counts"] = r.choice([None, 0, None])
	if profile == "n-loci" or r.random() < 0.1:
		glen = dict(zip(names, lens))
		sig = make_signals(p["gseed"], [tuple(x) for x in p["chroms"]], S,
			"out")
		K = sum(1 for c in candidates(p, glen, sig) if c["status"] == MUST)
		opts = [x for x in (1, 2, K - 1, K, K + 1, K + 5, K // 2) if x > 0]
		p["n_loci"] = r.choice(opts)
	return p


def gen_edge_grid(iw, ow, j, S, S2, k):
	"""Every expanded-window start in -1..2 and end in L-2..L+1 on two
	chromosomes, plus interior loci, for one (in, out, jitter) combination."""
	r = gen.pyrng(ID, "edge-grid", iw, ow, j, S, S2, k)
	use_out = bool(S)
	Wl = max(iw // 2, ow // 2 if use_out else 0) + j
	Wr = max(iw // 2 + iw % 2, (ow // 2 + ow % 2) if use_out else 0) + j
	need = Wl + Wr + 8
	chroms = [["chrE%d" % q, max(200 + q, need + r.randint(0, 40))] for q in
		(1, 2)]
	loci = []
	for c, L in chroms:
		for d in (-1, 0, 1, 2):
			iv = locus_with_mid(r, Wl + d, L)
			if iv:
				loci.append([c] + iv)
		for d in (-2, -1, 0, 1):
			iv = locus_with_mid(r, L + d - Wr, L)
			if iv:
				loci.append([c] + iv)
		for _ in range(2):
			lo, hi = Wl + 2, L - Wr - 2
			if lo <= hi:
				iv = locus_with_mid(r, r.randint(lo, hi), L)
				if iv:
					loci.append([c] + iv)
	r.shuffle(loci)
	return {"gseed": r.getrandbits(40), "chroms": chroms, "line_width":
		r.choice([0, 60, 13]), "desc": False, "bw_style": r.choice(["fixed",
		"intervals"]), "n_signals": S, "n_in_signals": S2, "in_window": iw,
		"out_window": ow, "max_jitter": j, "pass_jitter": True,
		"chroms_filter": None, "chroms_tuple": False, "n_loci": None,
		"min_counts": None, "max_counts": None, "target_idx": 0,
		"sets": [{"form": r.choice(["file", "df"]), "loci": loci}],
		"wrap": "list", "dict_dtype": "int8",
		"modes": [["fasta", "bw"], ["dict", "dict"]]}


EDGE_IN = [1, 2, 5, 6, 11, 12]
EDGE_OUT = [1, 2, 4, 7, 12, 13]
EDGE_J = [0, 1, 4]


# --------------------------------------------------------------------------
# _interleave_loci directly
# --------------------------------------------------------------------------

def gen_interleave(r):
	names = r.sample(CHROM_NAMES, r.randint(2, 5))
	nsets = r.choice([1, 2, 2, 3, 3, 4])
	sets = []
	for i in range(nsets):
		form = r.choice(["file", "file6", "df", "df6", "df-reindexed"])
		n = r.randint(0 if form.startswith("df") else 1, 9)
		loci = []
		for _ in range(n):
			s = r.randint(0, 5000)
			loci.append([r.choice(names), s, s + r.randint(0, 400)])
		sets.append({"form": form, "loci": loci})
	filt = None
	if r.random() < 0.5:
		filt = r.sample(names, r.randint(1, len(names)))
		if r.random() < 0.2:
			filt = filt + ["chrNotAnywhere"]
	return {"sets": sets, "chroms_filter": filt, "chroms_tuple":
		r.random() < 0.2, "wrap": r.choice(["bare", "list", "tuple"]),
		"kw": r.random() < 0.5}


def run_interleave(cls, p, rec):
	import pandas
	from tangermeme.io import _interleave_loci
	d = case_dir()
	try:
		loci = []
		for k, s in enumerate(p["sets"]):
			if s["form"].startswith("file"):
				path = os.path.join(d, "set%d.bed" % k)
				write_bed(path, s["loci"], s["form"] == "file6")
				loci.append(path)
			else:
				loci.append(make_df(s["loci"], s["form"]))
		if p["wrap"] == "bare" and len(loci) == 1:
			arg = loci[0]
		elif p["wrap"] == "tuple":
			arg = tuple(loci)
		else:
			arg = loci
		filt = p["chroms_filter"]
		ch = None if filt is None else (tuple(filt) if p["chroms_tuple"] else
			list(filt))
		if p["kw"]:
			st, out = gen.call(_interleave_loci, arg, chroms=ch)
		else:
			st, out = gen.call(_interleave_loci, arg, ch)
		rec.count("interleave_calls")
		exp = interleave_expected([s["loci"] for s in p["sets"]], filt)
		if st == "raise":
			if any(s["form"].startswith("df-cols:") for s in p["sets"]):
				rec.refusal(cls, p, "DataFrame with other column names: %s" %
					type(out).__name__)
				return
			rec.violation(cls, p, {"what": "_interleave_loci raised",
				"error": repr(out)[:400]}, mech="C16/interleave-raised")
			return
		if not isinstance(out, pandas.DataFrame) or out.shape[1] < 3:
			rec.violation(cls, p, {"what": "result is not a 3-column "
				"DataFrame", "got": type(out).__name__},
				mech="C16/interleave-rows")
			return
		try:
			got = [(str(a), int(b), int(c)) for a, b, c in
				out.iloc[:, :3].values.tolist()]
		except (TypeError, ValueError) as e:
			rec.violation(cls, p, {"what": "rows are not (chrom, start, end)",
				"error": repr(e), "head": str(out.head(4))},
				mech="C16/interleave-rows")
			return
		if got != exp:
			mech = ("C16/interleave-order" if sorted(got) == sorted(exp) else
				"C16/interleave-rows")
			k = next((i for i in range(min(len(got), len(exp))) if got[i] !=
				exp[i]), min(len(got), len(exp)))
			rec.violation(cls, p, {"what": "interleaved rows differ from "
				"round-robin order of the (filtered) sets", "first_diff": k,
				"got": got[:k + 3], "expected": exp[:k + 3], "n_got":
				len(got), "n_expected": len(exp)}, mech=mech)
			return
		sizes = [len(s["loci"]) for s in p["sets"]]
		removed = filt is not None and sum(sizes) > len(exp)
		if len(sizes) > 1 and len(set(sizes)) > 1:
			rec.count("interleave_unequal_sets")
		rec.held(cls, p, nontrivial=len(exp) >= 2 and (len(sizes) > 1 or
			removed))
	finally:
		shutil.rmtree(d, ignore_errors=True)


# --------------------------------------------------------------------------
# read_meme
# --------------------------------------------------------------------------

MEME_NAMES = ["MA0004.1 Arnt", "MEOX1_homeodomain_1", "FOSL2+JUND_MA1145.1",
	"GCR_HUMAN.H11MO.0.A", "m5", "ZN263 alt name (v2)", "TBX19_MA0804.1",
	"Hes1-like", "motif_9", "X"]


def make_motifs(mseed, n):
	r = gen.pyrng("C16-meme", mseed, n)
	names = r.sample(MEME_NAMES, n)
	motifs = []
	for name in names:
		w = r.choice([1, 2, 3, 4, 5, 6, 8, 10, 15])
		rows = []
		for _ in range(w):
			u = r.random()
			if u < 0.15:
				v = [0.0] * 4
				v[r.randrange(4)] = 1.0
			else:
				x = [r.random() ** 2 + 1e-3 for _ in range(4)]
				t = sum(x)
				v = [a / t for a in x]
			rows.append(["%.6f" % a for a in v])
		motifs.append({"name": name, "rows": rows})
	return motifs


def build_meme(p):
	"""-> (text, tagged lines, motifs)"""
	motifs = make_motifs(p["mseed"], p["n"])
	tws = p["tws"]
	ws = p.get("ws", "  ")
	pad_rows = ws if tws in ("rows", "all") else ""
	pad_motif = ws if tws in ("motif", "all") else ""
	pad_blank = ws if tws in ("blank", "all") else ""
	sep = p.get("sep", "  ")
	lead = p.get("lead", " ")
	lines = []
	if p["header"] == "full":
		for t in ("MEME version 4", "", "ALPHABET= ACGT", "", "strands: + -",
			"", "Background letter frequencies",
			"A 0.25 C 0.25 G 0.25 T 0.25", ""):
			lines.append((t + (pad_blank if t == "" else pad_rows), "hdr"))
	else:
		lines.append(("MEME version 4" + pad_rows, "hdr"))
		lines.append(("" + pad_blank, "hdr"))
	for k, m in enumerate(motifs):
		if k:
			for _ in range(p["between"]):
				lines.append((pad_blank, "blank"))
		lines.append(("MOTIF " + m["name"] + pad_motif, "motif", k))
		if p["mlblank"]:
			lines.append((pad_blank, "blank"))
		lines.append(("letter-probability matrix: alength= 4 w= %d nsites= "
			"%d E= 0" % (len(m["rows"]), 20 + k) + pad_rows, "letter", k))
		for row in m["rows"]:
			lines.append((lead + sep.join(row) + pad_rows, "row", k))
		if p["url"]:
			lines.append(("URL http://example.org/motif/%d" % k + pad_rows,
				"url", k))
	eol = "\r\n" if p["eol"] == "crlf" else "\n"
	text = eol.join(t[0] for t in lines)
	for _ in range({"none": 0, "one": 1, "several": 3}[p["final"]]):
		text += eol
		lines.append(("", "eof-blank"))
	if p["final"] != "none":
		lines.pop()            # the first terminator only ends the last line
	return text, lines, motifs


def run_meme(cls, p, rec):
	import torch
	from tangermeme.io import read_meme
	d = None if _UNIT_DIR[0] else case_dir()
	path = os.path.join(_UNIT_DIR[0] or d, "motifs.meme")
	try:
		text, lines, motifs = build_meme(p)
		with open(path, "w", newline="") as fh:
			fh.write(text)
		nm = p["n_motifs"]
		if nm is None:
			st, out = gen.call(read_meme, path)
		elif p.get("nm_kw", True):
			st, out = gen.call(read_meme, path, n_motifs=nm)
		else:
			st, out = gen.call(read_meme, path, nm)
	finally:
		if os.path.exists(path):
			os.remove(path)
		if d:
			shutil.rmtree(d, ignore_errors=True)
	rec.count("meme_files")
	n = len(motifs)
	# layout facts, derived from the generated line list
	tags = [t[1] for t in lines]
	motif_line = {t[2]: i for i, t in enumerate(lines) if t[1] == "motif"}
	after_matrix = [k for k in range(1, n) if tags[motif_line[k] - 1] ==
		"row"]
	last_is_row = tags[-1] == "row"
	if last_is_row:
		rec.count("meme_last_row_is_last_line")
	if after_matrix:
		rec.count("meme_motif_directly_after_matrix")
	if p["eol"] == "crlf":
		rec.count("meme_crlf")
	if p["tws"] != "none":
		rec.count("meme_trailing_whitespace")
	if p["final"] == "none":
		rec.count("meme_no_final_newline")
	file_names = [m["name"] for m in motifs]
	exp_names = file_names if nm is None else file_names[:nm]
	expv = {m["name"]: numpy.array([[float(x) for x in row] for row in
		m["rows"]], dtype=numpy.float64).T for m in motifs}
	base = {"file_text": text if len(text) < 1500 else text[:1500] + "...",
		"file_motifs": file_names, "n_motifs": nm}
	if st == "raise":
		rec.violation(cls, p, dict(base, what="read_meme raised",
			error=repr(out)[:300]), mech="C16/read-meme-raised")
		return
	if not isinstance(out, dict):
		rec.violation(cls, p, dict(base, what="result is not a dict",
			got=type(out).__name__), mech="C16/read-meme-return-structure")
		return
	got_keys = list(out.keys())
	base["returned"] = [str(k) for k in got_keys]
	stripped = [k.rstrip() if isinstance(k, str) else k for k in got_keys]
	# -- which motifs are there -------------------------------------------
	missing = [k for k, nme in enumerate(exp_names) if nme not in stripped]
	if missing:
		k = missing[0]
		if k in after_matrix:
			mech = "C16/read-meme-motif-after-matrix-lost"
			why = ("the MOTIF line of motif %d follows the last matrix row "
				"of motif %d directly (no URL / blank line)" % (k, k - 1))
		elif k == n - 1 and last_is_row:
			mech = "C16/read-meme-last-motif-lost"
			why = ("the last matrix row of the last motif is the last line "
				"of the file")
		else:
			mech = "C16/read-meme-motif-missing"
			why = "no layout reason identified"
		rec.violation(cls, p, dict(base, what="motif %r (index %d in the "
			"file) is not in the returned dict" % (exp_names[k], k),
			layout=why, expected=exp_names), mech=mech)
		return
	extra = [k for k in stripped if k not in exp_names]
	if extra or len(got_keys) != len(exp_names):
		mech = ("C16/read-meme-n-motifs" if nm is not None and len(got_keys)
			> nm else "C16/read-meme-name")
		rec.violation(cls, p, dict(base, what="unexpected keys %r" % (extra,),
			expected=exp_names), mech=mech)
		return
	if stripped != exp_names:
		rec.violation(cls, p, dict(base, what="motifs not in file order",
			expected=exp_names), mech="C16/read-meme-order")
		return
	if got_keys != exp_names:
		bad = [k for k, e in zip(got_keys, exp_names) if k != e]
		if any("\r" in k or "\n" in k for k in bad):
			rec.violation(cls, p, dict(base, what="key %r contains a line "
				"terminator" % (bad[0],)), mech="C16/read-meme-name-eol")
			return
		rec.violation(cls, p, dict(base, what="key %r carries the trailing "
			"whitespace of the MOTIF line (expected %r)" % (bad[0],
			bad[0].rstrip())), mech="C16/read-meme-name-trailing-whitespace")
		return
	# -- numbers ----------------------------------------------------------
	for name in exp_names:
		v = out[name]
		a = v.detach().cpu().numpy() if isinstance(v, torch.Tensor) else \
			numpy.asarray(v)
		e = expv[name]
		if a.shape != e.shape:
			rec.violation(cls, p, dict(base, what="motif %r has shape %s, "
				"expected (4, width) = %s" % (name, a.shape, e.shape)),
				mech="C16/read-meme-shape")
			return
		if a.dtype in (numpy.float32, numpy.float16):
			# a narrower float type holding the nearest representable value
			# still states the printed probability exactly at its precision
			e = e.astype(a.dtype)
		if not numpy.array_equal(a.astype(numpy.float64), e.astype(
			numpy.float64)):
			ij = numpy.argwhere(a.astype(numpy.float64) != e.astype(
				numpy.float64))[0].tolist()
			rec.violation(cls, p, dict(base, what="motif %r entry %s is %r, "
				"file says %r" % (name, ij, float(a[tuple(ij)]),
				float(e[tuple(ij)]))), mech="C16/read-meme-values")
			return
	fixture_like = (p["url"] and p["between"] == 1 and p["eol"] == "lf" and
		p["final"] == "one" and p["tws"] == "none" and not p["mlblank"])
	rec.held(cls, p, nontrivial=n >= 2 or not fixture_like)


MEME_FINAL = ["none", "one", "several"]
MEME_EOL = ["lf", "crlf"]
MEME_TWS = ["none", "rows", "motif", "blank", "all"]
MEME_HEADER = ["full", "min"]


def run_meme_unit(unit, rec):
	n, url, between, mseed = unit["n"], unit["url"], unit["between"], \
		unit["mseed"]
	c = 0
	for final in MEME_FINAL:
		for eol in MEME_EOL:
			for tws in MEME_TWS:
				for mlblank in (0, 1):
					for header in MEME_HEADER:
						c += 1
						r = gen.pyrng(ID, "meme-style", mseed, n, url, between,
							c)
						# consecutive files at the SAME path differ in content
						# (other motif values and names): a result that is
						# remembered per path instead of read shows at once
						base = {"mseed": mseed + 7919 * (c % 3), "n": n,
							"url": url,
							"between": between, "final": final, "eol": eol,
							"tws": tws, "mlblank": mlblank, "header": header,
							"ws": r.choice(["  ", " ", "\t", " \t "]),
							"sep": r.choice(["  ", "\t", " "]),
							"lead": r.choice(["", " ", "  "])}
						nms = [None] + sorted({1, n, max(1, n - 1), n + 1})
						if unit["tier"] == "quick":
							nms = [None, nms[1 + c % (len(nms) - 1)]]
						for nm in nms:
							cls = ("read_meme/layout-grid" if nm is None else
								"read_meme/n_motifs")
							run_case(cls, dict(base, n_motifs=nm,
								nm_kw=c % 2 == 0), rec)


# --------------------------------------------------------------------------
# framework interface
# --------------------------------------------------------------------------

EXTRACT_PROFILES = ["seq-only", "signals", "in-signals", "edges", "multi-set",
	"chroms", "n-loci", "counts"]


def plan(tier, seed):
	units = []
	quick = tier == "quick"
	per = 40 if quick else 150
	reps = 6 if quick else 24
	for prof in EXTRACT_PROFILES:
		for k in range(reps):
			units.append({"cls": "extract", "profile": prof, "k": k,
				"seed": seed, "ncases": per, "weight": per * 0.055})
	# enumerated edge grid: (in, out, jitter) x signal configuration
	combos = []
	for iw in EDGE_IN:
		for ow in EDGE_OUT:
			for j in EDGE_J:
				combos.append((iw, ow, j))
	nchunk = 6 if quick else 18
	for q in range(nchunk):
		units.append({"cls": "edge-grid", "part": q, "parts": nchunk,
			"seed": seed, "reps": 1 if quick else 4, "weight":
			len(combos) * (2 if quick else 11) * 0.05 / nchunk})
	for k in range(2 if quick else 8):
		units.append({"cls": "interleave", "k": k, "seed": seed, "ncases":
			60 if quick else 250, "weight": 0.6 if quick else 2.5})
	units.append({"cls": "df-cols", "seed": seed, "ncases": 12 if quick
		else 60, "weight": 0.7 if quick else 3.3})
	for mseed in range(seed * 100, seed * 100 + (1 if quick else 5)):
		for n in range(1, 7):
			for url in (0, 1):
				for between in (0, 1, 2):
					units.append({"cls": "meme", "n": n, "url": url,
						"between": between, "mseed": mseed, "tier": tier,
						"weight": 0.7 if quick else 1.8})
	return units


def run_unit(unit, rec):
	os.makedirs(WORK, exist_ok=True)
	_UNIT_DIR[0] = tempfile.mkdtemp(prefix="c16-unit-", dir=WORK)
	try:
		cls = unit["cls"]
		if cls == "extract":
			prof = unit["profile"]
			for c in range(unit["ncases"]):
				r = gen.pyrng(ID, unit["seed"], "extract", prof, unit["k"], c)
				run_case("extract/" + prof, gen_extract(r, prof), rec)
		elif cls == "edge-grid":
			combos = []
			for iw in EDGE_IN:
				for ow in EDGE_OUT:
					for j in EDGE_J:
						combos.append((iw, ow, j))
			done = 0
			for idx, (iw, ow, j) in enumerate(combos):
				if idx % unit["parts"] != unit["part"]:
					continue
				for rep in range(unit["reps"]):
					for S, S2 in ((0, 0), (1, 0)) + (((2, 1),) if rep else ()):
						run_case("extract/edge-grid", gen_edge_grid(iw, ow, j,
							S, S2, unit["seed"] * 100 + rep), rec)
						done += 1
			rec.count("edge_grid_cases", done)
		elif cls == "interleave":
			for c in range(unit["ncases"]):
				r = gen.pyrng(ID, unit["seed"], "interleave", unit["k"], c)
				run_case("interleave/direct", gen_interleave(r), rec)
		elif cls == "df-cols":
			for c in range(unit["ncases"]):
				r = gen.pyrng(ID, unit["seed"], "df-cols", c)
				p = gen_extract(r, r.choice(["seq-only", "multi-set",
					"chroms"]))
				names = r.choice(["0,1,2", "chr,start,end", "#chrom,"
					"chromStart,chromEnd", "seqnames,start,end"])
				for i, s in enumerate(p["sets"]):
					if i == 0 or r.random() < 0.5:
						s["form"] = "df-cols:" + names
				p["modes"] = [["fasta", "bw"], ["dict", "dict"]]
				run_case("extract/df-other-column-names", p, rec)
		elif cls == "meme":
			run_meme_unit(unit, rec)
		else:
			raise AssertionError(cls)
	finally:
		shutil.rmtree(_UNIT_DIR[0], ignore_errors=True)
		_UNIT_DIR[0] = None


def run_case(cls, params, rec):
	if cls.startswith("extract/"):
		run_extract(cls, params, rec)
	elif cls.startswith("interleave/"):
		run_interleave(cls, params, rec)
	elif cls.startswith("read_meme/"):
		run_meme(cls, params, rec)
	else:
		raise AssertionError(cls)
