"""Seeded generators and harness-owned encoders/decoders.

Nothing here calls tangermeme: oracles must not share code with the
implementation they judge.
"""

import hashlib
import itertools
import random

import numpy
import torch

DNA = "ACGT"
LETTERS = "ACGTEFHIKLMPQRSVWY"


def seed_of(*tags):
	h = hashlib.blake2b(("|".join(str(t) for t in tags)).encode(),
		digest_size=8).digest()
	return int.from_bytes(h, "little")


def pyrng(*tags):
	return random.Random(seed_of(*tags))


def nprng(*tags):
	return numpy.random.default_rng(seed_of(*tags))


def rand_seq(r, L, alphabet=DNA):
	return "".join(r.choice(alphabet) for _ in range(L))


def all_seqs(L, alphabet=DNA):
	for t in itertools.product(alphabet, repeat=L):
		yield "".join(t)


class NotOneHot(Exception):
	pass


def ohe(strs, alphabet=DNA, dtype=torch.int8, ignore="N"):
	"""Own encoder: list of equal-length strings -> (B, A, L) tensor."""
	if isinstance(strs, str):
		strs = [strs]
	B, A, L = len(strs), len(alphabet), len(strs[0])
	a = numpy.zeros((B, A, L), dtype=numpy.int8)
	for b, s in enumerate(strs):
		assert len(s) == L
		for i, ch in enumerate(s):
			if ch in ignore:
				continue
			a[b, alphabet.index(ch), i] = 1
	return torch.from_numpy(a).type(dtype)


def ohe1(s, alphabet=DNA, dtype=torch.int8, ignore="N"):
	return ohe([s], alphabet, dtype, ignore)[0]


def decode(t, alphabet=DNA, allow_zero=False):
	"""Own decoder with validation: (B, A, L) or (A, L) tensor -> strings.
	Raises NotOneHot when a column is not a unit vector (or, with allow_zero,
	all-zero -> 'N')."""
	a = t.detach().cpu().numpy() if isinstance(t, torch.Tensor) else numpy.asarray(t)
	single = a.ndim == 2
	if single:
		a = a[None]
	if a.ndim != 3 or a.shape[1] != len(alphabet):
		raise NotOneHot("shape %s for alphabet of %d" % (a.shape, len(alphabet)))
	out = []
	for b in range(a.shape[0]):
		chars = []
		for i in range(a.shape[2]):
			col = a[b, :, i]
			nz = numpy.nonzero(col)[0]
			if len(nz) == 1 and col[nz[0]] == 1:
				chars.append(alphabet[nz[0]])
			elif len(nz) == 0 and allow_zero:
				chars.append("N")
			else:
				raise NotOneHot("example %d position %d column %s" % (b, i,
					col.tolist()))
		out.append("".join(chars))
	return out[0] if single else out


def tbytes(t):
	"""Byte snapshot of a tensor (content, dtype and shape)."""
	if t is None:
		return None
	if isinstance(t, torch.Tensor):
		c = t.detach().cpu().contiguous()
		return (str(c.dtype), tuple(c.shape), c.numpy().tobytes()
			if c.dtype != torch.bfloat16 else c.float().numpy().tobytes())
	if isinstance(t, numpy.ndarray):
		return (str(t.dtype), t.shape, t.tobytes())
	return repr(t)


LAYOUTS = ("plain", "strided", "offset", "step")


def layout_of(params, *extra):
	"""The memory layout in which a case hands its tensors to the package:
	params['layout'] when given, else a choice derived from the case's own
	parameters (so that replays reproduce it and it is not correlated with
	any rotating parameter)."""
	if isinstance(params, dict) and params.get("layout") and not extra:
		return params["layout"]
	key = repr(sorted((k, repr(v)) for k, v in params.items()
		if k != "layout")) if isinstance(params, dict) else repr(params)
	return LAYOUTS[pyrng("layout", key, *extra).randrange(len(LAYOUTS))]


def relayout(t, mode):
	"""-> (view, base): a tensor with the same values, dtype and shape as t
	but another memory layout, and the storage it lives in (None for plain):
	  strided  last two dims stored transposed (non-contiguous)
	  offset   interior of a larger tensor whose margin holds the sentinel 7
	           (storage offset, non-contiguous; the margin must stay intact)
	  step     every second element of the last dim of a tensor twice as long
	           (stride 2; the skipped cells hold the sentinel 7)."""
	if mode == "plain" or t is None or t.ndim == 0:
		return t, None
	if mode == "strided":
		if t.ndim < 2:
			return t, None
		base = t.transpose(-1, -2).contiguous()
		return base.transpose(-1, -2), base
	if mode == "offset":
		base = torch.full([n + 2 for n in t.shape], 7).type(t.dtype)
		idx = tuple(slice(1, -1) for _ in t.shape)
		base[idx] = t
		return base[idx], base
	if mode == "step":
		base = torch.full(list(t.shape[:-1]) + [2 * t.shape[-1]], 7).type(
			t.dtype)
		base[..., ::2] = t
		return base[..., ::2], base
	raise ValueError(mode)


def apply_layout(params, rec, t, *extra):
	"""-> (params with the layout recorded, view of t in that layout, base).
	Counts what the monitor saw."""
	lay = layout_of(params, *extra)
	if not extra:
		params = dict(params, layout=lay)
	v, base = relayout(t, lay)
	rec.setadd("layouts", lay)
	if base is not None:
		rec.count("nonplain_layout_cases")
	return params, v, base


def reindex(df, *key):
	"""The same rows in the same order under other index labels, as a frame
	looks after sort_values / sample / boolean filtering without
	reset_index: a third of the calls keep the default RangeIndex, a third
	get a permutation of 0..n-1 as labels (positions and labels disagree),
	a third get labels starting at 1000 with gaps."""
	r = pyrng("reindex", *[repr(k) for k in key])
	mode = r.randrange(3)
	n = len(df)
	if mode == 0 or n == 0:
		return df
	df = df.copy()
	if mode == 1:
		lab = list(range(n))
		r.shuffle(lab)
	else:
		lab = [1000 + 3 * i for i in range(n)]
	df.index = lab
	return df


class Immutable:
	"""Immutability monitor: byte snapshots of caller-owned tensors before a
	call, compared after return *or* raise."""

	def __init__(self, **tensors):
		self.tensors = tensors
		self.before = {k: tbytes(v) for k, v in tensors.items()}

	def changed(self):
		return [k for k, v in self.tensors.items()
			if tbytes(v) != self.before[k]]


def call(fn, *a, **k):
	"""-> ('ok', value) or ('raise', exception).  BaseException subclasses
	other than Exception propagate."""
	try:
		return "ok", fn(*a, **k)
	except Exception as e:
		return "raise", e
